#!/usr/bin/env python3
"""tools/mkseedtask.py <ID> <worktree> : write _seed/PROPERTY.md and _seed/TASK.md into a scratch worktree for a mutation sub-agent.
Only the property's own text goes in (nothing from /verif's machinery)."""
import json, sys, os
pid, wt = sys.argv[1], sys.argv[2]
props = {json.loads(l)["id"]: json.loads(l) for l in open(os.path.join(os.path.dirname(os.path.abspath(__file__)), "..", "properties.jsonl"))}
p = props[pid]
os.makedirs(f"{wt}/_seed", exist_ok=True)
with open(f"{wt}/_seed/PROPERTY.md", "w") as f:
    f.write(f"# Property {pid}: {p['title']}\n\n## Statement\n{p['statement']}\n\n## Quantified over\n{p['quantifier']['text']}\n\n"
            f"## Why the existing tests cannot settle it\n{p['why_tests_cant']}\n\n## Code it is anchored in\n")
    for m in p["anchors"]["mechanism"]:
        f.write(f"- {m['name']}: {m['where']}\n")
    f.write("\nObserved at: " + "; ".join(p["anchors"]["observe_at"]) + "\n")
fail = open("/tmp/baseline_fail_now.txt" if os.path.exists("/tmp/baseline_fail_now.txt") else "/tmp/baseline_fail.txt").read().split()
letters = sys.argv[3] if len(sys.argv) > 3 else "AB"  # names of the two changes asked for (a later round uses CD, EF ...)
with open(f"{wt}/_seed/TASK.md", "w") as f:
    f.write(f"""# Task

You are in a scratch git worktree of the Python library WinVector/data_algebra: `{wt}` (work ONLY inside this directory; never read or
touch /repo or /verif). Python with all dependencies: `/venv/bin/python`. The library source is `{wt}/data_algebra/`, tests are `{wt}/tests/`.

Read `_seed/PROPERTY.md`: a semantic property this library is supposed to satisfy.

Produce TWO independent, realistic source changes (call them A and B; different mechanisms / different sites) to the library code
(`data_algebra/*.py`, not the tests) such that each one, applied alone:
  * BREAKS the property (for some input / history / pipeline the property quantifies over),
  * still imports/compiles, and the existing test-suite result is unchanged: every test that passed before still passes
    (36 tests fail already on the unmodified tree, listed below; ignore those),
  * needs something specific to manifest -- an unusual input (null key, empty table, duplicate, tie, particular string), a multi-step
    sequence of operations, a particular option combination, or two cooperating sites that each look fine alone -- NOT something that
    ordinary use or the first smoke test would expose at once. It should look like a plausible refactoring slip, off-by-one, wrong default,
    dropped special case, swapped argument or over-eager optimisation a maintainer could make.

For each of A and B deliver, in `{wt}/_seed/A/` and `{wt}/_seed/B/`:
  1. `patch.diff`  -- `git diff` of the library change only (must apply with `git apply` to a clean checkout of this commit),
  2. `demo.py`     -- a small self-contained program, run as `cd <checkout> && PYTHONPATH=<checkout> /venv/bin/python _seed/A/demo.py`
                      (it must `import data_algebra` from the checkout it is run in, no absolute paths to this worktree), that exits 0
                      on the ORIGINAL code and exits non-zero (failed assertion) WITH the change; it must demonstrate a violation of the
                      property as stated, through the library's public behaviour,
  3. `notes.md`    -- what the change is, what it needs in order to manifest, which tests you ran (command + pass/fail counts).

How to run tests: `cd {wt} && /venv/bin/python -m pytest -q -p no:cacheprovider --timeout=900 -x tests/test_<name>.py` for the relevant files
first; the whole suite (`/venv/bin/python -m pytest -q -p no:cacheprovider --timeout=900`, about 8 minutes, 349 pass / 36 fail on the
unmodified tree) must be run at least once per change before you finish. Work on one change at a time: save it with `git diff > _seed/A/patch.diff`, then
`git checkout -- data_algebra` before starting the next (re-apply with `git apply`), so each patch is independent. NEVER use `git stash`: the stash is shared
with other worktrees of this repository that other people are using at the same time. Leave the worktree's tracked files unmodified at the end (the patches live in `_seed/`).
No network is available. Do not commit.

Already-failing tests on the unmodified tree (ignore): {', '.join(fail)}
""")
if letters != "AB":
    t = open(f"{wt}/_seed/TASK.md").read()
    for old, new in (("_seed/A", f"_seed/{letters[0]}"), ("_seed/B", f"_seed/{letters[1]}"), ("(call them A and B;", f"(call them {letters[0]} and {letters[1]};"),
                     ("For each of A and B", f"For each of {letters[0]} and {letters[1]}")):
        t = t.replace(old, new)
    open(f"{wt}/_seed/TASK.md", "w").write(t)
t = open(f"{wt}/_seed/TASK.md").read()
t = t.replace("(36 tests fail already on the unmodified tree, listed below; ignore those)", f"({len(fail)} tests fail already on the unmodified tree, listed below; ignore those)")
t = t.replace("about 8 minutes, 349 pass / 36 fail on the", f"about 5 minutes, {len(fail)} tests fail on the")
open(f"{wt}/_seed/TASK.md", "w").write(t)
print("ok", pid, wt, letters)
