#!/bin/bash
# tools/seedtest.sh <patch.diff> <ID> [tier]   -- run a check against a scratch worktree of /repo with the patch applied
P=$(readlink -f "$1"); ID=$2; TIER=${3:-quick}
WT=$(mktemp -d /tmp/seedwt.XXXXXX); rmdir $WT
git -C /repo worktree add --detach $WT HEAD >/dev/null 2>&1 || exit 3
git -C $WT apply "$P" || { echo "PATCH DOES NOT APPLY"; git -C /repo worktree remove --force $WT; exit 3; }
cd "$(dirname "$0")/.."
VERIF_REPO=$WT VERIF_EVID_SUFFIX=.seedtest ./check $ID --tier $TIER 2>&1 | cut -c1-400 | tail -8
RC=${PIPESTATUS[0]}
git -C /repo worktree remove --force $WT
echo "seedtest $ID $(basename $(dirname $P)) exit=$RC"
exit $RC
