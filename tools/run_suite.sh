#!/bin/bash
# tools/run_suite.sh [ref] : run the pinned test-suite on a scratch worktree of /repo at <ref> (default HEAD) and compare with BASELINE.json
REF=${1:-HEAD}
WT=$(mktemp -d /tmp/suite.XXXXXX); rmdir $WT
git -C /repo worktree add --detach $WT $REF >/dev/null 2>&1 || exit 3
cd $WT
/venv/bin/python -m pytest -q -p no:cacheprovider --timeout=900 --continue-on-collection-errors --junitxml=$WT/junit.xml > $WT/pytest.log 2>&1
python3 - <<P
import xml.etree.ElementTree as ET, json
t=ET.parse('$WT/junit.xml'); ok=set(); bad=set()
for tc in t.iter('testcase'):
    n=tc.get('classname')+'::'+tc.get('name')
    (bad if any(c.tag in ('failure','error') for c in tc) else ok).add(n)
b=json.load(open('/root/.vp/BASELINE.json'))
base=set(b['stable_pass'])
print("SUITE ref=$REF passed=%d failed=%d baseline_missing=%d %s newly_passing=%s" % (len(ok), len(bad), len(base-ok), sorted(base-ok)[:10], sorted(ok-base)[:10]))
P
tail -3 $WT/pytest.log
git -C /repo worktree remove --force $WT; rm -rf $WT
