#!/bin/bash
# tools/run_all.sh <tier> [ID ...]  -- run the checks one after the other (each uses all cores); one line per check: ALL <ID> <tier> exit=<rc> wall=<s>
cd "$(dirname "$0")/.."
TIER=${1:-quick}; shift
IDS="$@"
[ -z "$IDS" ] && IDS=$(python3 -c "import json;print(' '.join(c['property_id'] for c in json.load(open('MANIFEST.json'))['checks']))")
mkdir -p scratch/logs
for id in $IDS; do
  t0=$(date +%s)
  ./check $id --tier $TIER > scratch/logs/$id.$TIER.log 2>&1
  rc=$?
  t1=$(date +%s)
  echo "ALL $id $TIER exit=$rc wall=$((t1-t0)) $(grep -c '^VIOLATION' scratch/logs/$id.$TIER.log) violations, $(grep -c '^KNOWN-FINDING' scratch/logs/$id.$TIER.log) known, $(grep -c 'HARNESS-ERROR' scratch/logs/$id.$TIER.log) harness-errors"
done
