#!/bin/bash
# tools/seed_matrix.sh [seed-id ...]   -- run each seeded change against the quick check of its own property (scratch worktree, removed afterwards)
# prints one line per seed:  MATRIX <seed> <property> exit=<rc>   (1 = detected with a VIOLATION line, 0 = missed, other = harness problem)
cd "$(dirname "$0")/.."
SEEDS="$@"
[ -z "$SEEDS" ] && SEEDS=$(ls seeded)
for s in $SEEDS; do
  [ -f seeded/$s/patch.diff ] || continue
  id=${s%%-*}
  extra=$(python3 -c "import json;print(' '.join(json.load(open('seeded/$s/meta.json')).get('also_check',[])))" 2>/dev/null)
  for prop in $id $extra; do
    [ -f vf/checks/$(echo $prop | tr A-Z a-z).py ] || { echo "MATRIX $s $prop exit=nocheck"; continue; }
    out=$(tools/seedtest.sh seeded/$s/patch.diff $prop quick 2>&1)
    rc=$(echo "$out" | grep -o "exit=[0-9]*" | tail -1)
    v=$(echo "$out" | grep -c "^VIOLATION")
    echo "MATRIX $s $prop $rc violations_shown=$v"
  done
done
