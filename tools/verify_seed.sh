#!/bin/bash
# tools/verify_seed.sh <dir with patch.diff + demo.py> <PROP-ID> <name>  -> /verif/seeded/<PROP-ID>-<name>/ (patch.diff, demo.py, meta.json) if confirmed
# Confirms in a fresh scratch worktree of /repo: demo passes without the patch, fails with it, and the pinned test-suite result is unchanged.
SRC=$(readlink -f "$1"); ID=$2; NAME=$3
OUT=/verif/seeded/$ID-$NAME
WT=$(mktemp -d /tmp/vseed.XXXXXX); rmdir $WT
git -C /repo worktree add --detach $WT HEAD >/dev/null 2>&1 || { echo "worktree failed"; exit 3; }
cleanup() { git -C /repo worktree remove --force $WT >/dev/null 2>&1; rm -rf $WT; }
trap cleanup EXIT
mkdir -p $WT/_seed/$NAME; cp $SRC/demo.py $WT/_seed/$NAME/demo.py
cd $WT
PYTHONPATH=$WT timeout 600 /venv/bin/python -W ignore _seed/$NAME/demo.py >/tmp/vseed_$ID$NAME.before 2>&1; RC0=$?
git apply $SRC/patch.diff || { echo "RESULT $ID-$NAME patch does not apply"; exit 3; }
PYTHONPATH=$WT timeout 600 /venv/bin/python -W ignore _seed/$NAME/demo.py >/tmp/vseed_$ID$NAME.after 2>&1; RC1=$?
if [ "$4" != "--skip-suite" ]; then
  /venv/bin/python -m pytest -q -p no:cacheprovider --timeout=900 --continue-on-collection-errors --junitxml=/tmp/vseed_$ID$NAME.xml >/tmp/vseed_$ID$NAME.pytest 2>&1
  SUITE=$(python3 - <<P
import xml.etree.ElementTree as ET
t=ET.parse('/tmp/vseed_$ID$NAME.xml'); ok=set()
for tc in t.iter('testcase'):
    if not any(c.tag in ('failure','error','skipped') for c in tc): ok.add(tc.get('classname')+'::'+tc.get('name'))
base=set(open('/tmp/baseline_pass.txt').read().split())
missing=sorted(base-ok)
print(len(ok), len(missing), ','.join(missing[:5]))
P
)
else SUITE="skipped 0 "; fi
NPASS=$(echo $SUITE | cut -d' ' -f1); NMISS=$(echo $SUITE | cut -d' ' -f2); MISS=$(echo $SUITE | cut -d' ' -f3)
echo "RESULT $ID-$NAME demo_before=$RC0 demo_after=$RC1 suite_pass=$NPASS baseline_missing=$NMISS $MISS"
if [ $RC0 -eq 0 ] && [ $RC1 -ne 0 ] && [ "$NMISS" = "0" ]; then
  mkdir -p $OUT; cp $SRC/patch.diff $SRC/demo.py $OUT/; [ -f $SRC/notes.md ] && cp $SRC/notes.md $OUT/notes.md
  python3 - <<P
import json
json.dump({"property":"$ID","name":"$NAME","confirmed":{"demo_exit_without_patch":$RC0,"demo_exit_with_patch":$RC1,"suite_passed":"$NPASS","baseline_tests_missing":$NMISS},
 "ran":["PYTHONPATH=<wt> /venv/bin/python _seed/$NAME/demo.py (before and after git apply patch.diff)","/venv/bin/python -m pytest -q -p no:cacheprovider --timeout=900 --junitxml=... compared with BASELINE.json stable_pass"],
 "needs":"see notes.md", "detected_by": None}, open("$OUT/meta.json","w"), indent=1)
P
  echo "KEPT $OUT"
else
  echo "REJECTED $ID-$NAME (see /tmp/vseed_$ID$NAME.*)"
fi
rm -f /tmp/vseed_$ID$NAME.xml /tmp/vseed_$ID$NAME.pytest
