#!/bin/bash
# tools/fix_regression.sh [commit ...]  -- for each "fixed:" entry of known_findings.json (or the given commits): undo that fix in a scratch worktree of
# /repo HEAD (git show -R) and run the quick check of the first property the entry names.  A repaired defect must be reported again if it returns:
# prints  REGRESSION <commit> <property> exit=<rc>  (1 = the check reports the violation again, 0 = missed, nopatch = the reverse patch no longer applies)
cd "$(dirname "$0")/.."
LIST=$(python3 - "$@" <<'P'
import json, re, sys
want = set(sys.argv[1:])
for e in json.load(open("known_findings.json"))["fixed"]:
    m = re.match(r"fixed: property=([A-Z0-9,]+) ([0-9a-f]{7,})", e)
    if m and (not want or m.group(2) in want):
        print(m.group(2), m.group(1))
P
)
echo "$LIST" | while read c props; do
  [ -z "$c" ] && continue
  WT=$(mktemp -d /tmp/regwt.XXXXXX); rmdir $WT
  git -C /repo worktree add --detach $WT HEAD >/dev/null 2>&1 || { echo "REGRESSION $c worktree failed"; continue; }
  if git -C /repo show -R $c -- data_algebra | git -C $WT apply 2>/dev/null; then
    for p in $(echo $props | tr ',' ' '); do
      VERIF_REPO=$WT VERIF_EVID_SUFFIX=.seedtest ./check $p --tier quick > /tmp/reg_$c.$p.log 2>&1
      rc=$?
      echo "REGRESSION $c $p exit=$rc $(grep -c '^VIOLATION' /tmp/reg_$c.$p.log) violation lines"
    done
  else
    echo "REGRESSION $c $props exit=nopatch"
  fi
  git -C /repo worktree remove --force $WT
done
