#!/bin/bash
# re-check every kept seed against the CURRENT /repo HEAD: patch applies, demo passes without and fails with the patch
cd /verif
for s in $(ls seeded); do
  d=/verif/seeded/$s
  [ -f $d/patch.diff ] || continue
  WT=$(mktemp -d /tmp/rs.XXXXXX); rmdir $WT
  git -C /repo worktree add --detach $WT HEAD >/dev/null 2>&1
  mkdir -p $WT/_seed/X; cp $d/demo.py $WT/_seed/X/demo.py
  ( cd $WT; PYTHONPATH=$WT timeout 300 /venv/bin/python -W ignore _seed/X/demo.py >/dev/null 2>&1; echo $? > /tmp/rs_before )
  if git -C $WT apply $d/patch.diff 2>/dev/null; then
    ( cd $WT; PYTHONPATH=$WT timeout 300 /venv/bin/python -W ignore _seed/X/demo.py >/dev/null 2>&1; echo $? > /tmp/rs_after )
    echo "RECHECK $s before=$(cat /tmp/rs_before) after=$(cat /tmp/rs_after)"
  else
    echo "RECHECK $s before=$(cat /tmp/rs_before) PATCH-DOES-NOT-APPLY"
  fi
  git -C /repo worktree remove --force $WT
done
