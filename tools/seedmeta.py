#!/usr/bin/env python3
"""tools/seedmeta.py <matrix-log> : fold the MATRIX lines of tools/seed_matrix.sh into seeded/*/meta.json (detected_by, needs) and print the table for DESIGN.md"""
import json, os, re, sys

HERE = os.path.dirname(os.path.dirname(os.path.abspath(__file__)))
res = {}
for log in sys.argv[1:]:
    for line in open(log, errors="replace"):
        m = re.match(r"MATRIX (\S+) (\S+) exit=(\d*)", line)
        if m:
            res.setdefault(m.group(1), {})[m.group(2)] = m.group(3)
rows = []
for s in sorted(os.listdir(os.path.join(HERE, "seeded"))):
    d = os.path.join(HERE, "seeded", s)
    mp = os.path.join(d, "meta.json")
    if not os.path.exists(mp):
        continue
    meta = json.load(open(mp))
    notes = open(os.path.join(d, "notes.md")).read() if os.path.exists(os.path.join(d, "notes.md")) else ""
    title = (notes.splitlines() or [""])[0].lstrip("# ").strip()
    m = re.search(r"##\s*What it needs to manifest\s*\n(.*?)(?:\n##|\Z)", notes, re.S)
    if m and (meta.get("needs") in (None, "", "see notes.md")):
        meta["needs"] = re.sub(r"\s+", " ", m.group(1)).strip()[:700]
    if title:
        meta["change"] = title
    r = res.get(s, {})
    if r:
        det = sorted(p for p, rc in r.items() if rc == "1")
        meta["detected_by"] = [f"./check {p} --tier quick" for p in det]
        meta["matrix"] = {p: ("detected" if rc == "1" else "missed" if rc == "0" else "harness problem / patch did not apply") for p, rc in r.items()}
    json.dump(meta, open(mp, "w"), indent=1)
    det = meta.get("detected_by") or []
    rows.append((s, title, ", ".join(x.split()[1] for x in det) if det else "**missed**"))
for s, t, d in rows:
    print(f"| {s} | {t[:150]} | {d} |")
