#!/usr/bin/env python3
import json, os, sys
HERE = os.path.dirname(os.path.dirname(os.path.abspath(__file__)))
sys.path.insert(0, HERE)

import vf.registry as R
props = [json.loads(l) for l in open(os.path.join(HERE, "properties.jsonl"))]
checks = []
na = []
for p in props:
    pid = p["id"]
    if pid in R.CHECKS:
        c = R.CHECKS[pid]
        checks.append({
            "property_id": pid,
            "quick_cmd": f"./check {pid} --tier quick",
            "thorough_cmd": f"./check {pid} --tier thorough",
            "evidence_file": f"/verif/evidence/{pid}.json",
            "replay_cmd_template": f"./check {pid} --replay {{path}}",
            "engine": c.get("engine", "forksym+z3"),
            "level_claimed": {"category": c["category"], "text": c["text"], "design_ref": c.get("design_ref", "DESIGN.md §4")},
            "level_note": c["note"],
            "technique": c["technique"],
        })
    else:
        na.append({"property_id": pid, "reason": getattr(R, "NOT_APPLICABLE", {}).get(pid, "check not yet built in this revision (solver-based design in DESIGN.md §4); not claimed")})
m = {
    "version": 1,
    "setup_cmd": "./setup.sh",
    "hooks": {
        "guard": "WINVECTOR_DATA_ALGEBRA_VERIF",
        "enable": "no source hooks are needed: checks import /repo's working tree directly (PYTHONPATH) and substitute pandas/numpy/polars models at import time",
        "baseline_off_cmd": "cd /repo && /venv/bin/python -m pytest -ra -q -p no:cacheprovider --timeout=900 --continue-on-collection-errors",
        "source_commits": [],
        "add_only": True,
    },
    "engines": [
        {"name": "forksym+z3", "path": "vf/forksym.py", "kind_free_text": "path-forking symbolic execution of real Python code over z3 proxies", "serves_properties": sorted(R.CHECKS)},
    ],
    "checks": checks,
    "not_applicable": na,
    "notes": "All checks decide their property with an SMT solver over symbolic inputs within stated bounds; see DESIGN.md.",
}
json.dump(m, open(os.path.join(HERE, "MANIFEST.json"), "w"), indent=1)
print("checks:", len(checks), "not_applicable:", len(na))
