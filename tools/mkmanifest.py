#!/usr/bin/env python3
import json, os, sys
HERE = os.path.dirname(os.path.dirname(os.path.abspath(__file__)))
sys.path.insert(0, HERE)

import vf.registry as R
props = [json.loads(l) for l in open(os.path.join(HERE, "properties.jsonl"))]
checks = []
na = []
for p in props:
    pid = p["id"]
    if pid in R.CHECKS:
        c = R.CHECKS[pid]
        checks.append({
            "property_id": pid,
            "quick_cmd": f"./check {pid} --tier quick",
            "thorough_cmd": f"./check {pid} --tier thorough",
            "evidence_file": f"/verif/evidence/{pid}.json",
            "replay_cmd_template": f"./check {pid} --replay {{path}}",
            "engine": c.get("engine", "forksym+z3"),
            "level_claimed": {"category": c["category"], "text": c["text"], "design_ref": c.get("design_ref", "DESIGN.md §4")},
            "level_note": c["note"],
            "technique": c["technique"],
        })
    else:
        na.append({"property_id": pid, "reason": getattr(R, "NOT_APPLICABLE", {}).get(pid, "check not yet built in this revision (solver-based design in DESIGN.md §4); not claimed")})
m = {
    "version": 1,
    "setup_cmd": "./setup.sh",
    "hooks": {
        "guard": "WINVECTOR_DATA_ALGEBRA_VERIF",
        "enable": "no source hooks are needed: checks import /repo's working tree directly (PYTHONPATH) and substitute pandas/numpy/polars models at import time",
        "baseline_off_cmd": "cd /repo && /venv/bin/python -m pytest -ra -q -p no:cacheprovider --timeout=900 --continue-on-collection-errors",
        "source_commits": [],
        "add_only": True,
    },
    "engines": [
        {"name": "forksym+z3", "path": "vf/forksym.py", "kind_free_text": "path-forking symbolic execution of real Python code over z3 proxies (SymInt/SymBool/Name/SymDict); one solver verdict per structural path",
         "serves_properties": sorted(p for p in R.CHECKS if p != "C13")},
        {"name": "pandas/numpy model", "path": "vf/sym/pdshim.py", "kind_free_text": "symbolic stand-in for pandas/numpy that the REAL pandas_base.py executor (private copy of the current source, vf/sym/load.py) runs on; cells are z3 terms",
         "serves_properties": [p for p in sorted(R.CHECKS) if R.CHECKS[p].get("engine", "").startswith("forksym+z3 over")]},
        {"name": "SQL interpreter", "path": "vf/sym/sqlsym.py", "kind_free_text": "lexer/parser/symbolic interpreter for the SQL text emitted by the real to_sql (SQLite and PostgreSQL semantics), with the repository's SQLite user functions (vf/sym/udf.py)",
         "serves_properties": ["C01", "C02", "C04", "C05", "C08", "C09", "C10", "C15", "C16", "C21", "C27"]},
        {"name": "polars model", "path": "vf/sym/plshim.py", "kind_free_text": "symbolic stand-in for polars that the REAL polars_model.py executor runs on", "serves_properties": ["C03", "C05", "C17"]},
        {"name": "reference semantics", "path": "vf/sym/refsem.py", "kind_free_text": "order-free z3 formulas for joins, groups, windows, rank, LOCF, unpivot written from the property statements", "serves_properties": ["C05", "C09", "C16", "C17", "C21", "C27"]},
        {"name": "z3 (SMT equivalence of expression trees)", "path": "vf/checks/c13.py", "kind_free_text": "Term tree from the real parser vs CPython ast, QF_UFLRA", "serves_properties": ["C13"]},
        {"name": "crosshair", "path": "vf/chrun.py", "kind_free_text": "CrossHair 0.0.110 contracts (vf/ch/) on the real quoting functions and data spaces", "serves_properties": ["C14", "C20"]},
    ],
    "checks": checks,
    "not_applicable": na,
    "notes": "All checks decide their property with an SMT solver over symbolic inputs within stated bounds; see DESIGN.md.",
}
json.dump(m, open(os.path.join(HERE, "MANIFEST.json"), "w"), indent=1)
print("checks:", len(checks), "not_applicable:", len(na))
