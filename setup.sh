#!/bin/bash
# Offline, idempotent creation of /verif/.venv : overlay of /venv (repo deps) + z3/crosshair/cvc5 from the wheelhouse.
set -e
cd "$(dirname "$0")"
VENV="$PWD/.venv"
exec 9>"$PWD/.setup.lock"
flock 9
if [ -x "$VENV/bin/python" ] && "$VENV/bin/python" -c "import z3, crosshair, pandas, data_algebra" 2>/dev/null; then
  exit 0
fi
rm -rf "$VENV"
/venv/bin/python -m venv "$VENV"
SP=$("$VENV/bin/python" -c "import sysconfig; print(sysconfig.get_paths()['purelib'])")
printf "import site; site.addsitedir('/venv/lib/python3.12/site-packages')\n" > "$SP/_verif_overlay.pth"
PIP_NO_INDEX=1 "$VENV/bin/pip" install -q --no-index --find-links /opt/veriftools/wheels z3-solver crosshair-tool cvc5 jsonschema >/dev/null 2>&1 || \
PIP_NO_INDEX=1 "$VENV/bin/pip" install --no-index --find-links /opt/veriftools/wheels z3-solver crosshair-tool cvc5 jsonschema
"$VENV/bin/python" -c "import z3, crosshair, pandas, data_algebra; print('verif venv ok', z3.get_version_string())"
