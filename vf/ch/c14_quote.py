"""C14 contract functions (CrossHair / PEP316) over the real quoting functions of every dialect model.

Reference lexers are written from each dialect's documentation (a *model*: only the SQLite one can be validated
against an engine here):
  SQLite, PostgreSQL (standard_conforming_strings=on): '...' with '' as the only escape; "..." identifiers with "".
  MySQL (default sql_mode): '...' with '' and backslash escapes; `...` identifiers, `` doubled, no backslash escapes.
  BigQuery: "..." / '...' strings with backslash escapes only (a doubled quote ends the literal; a raw newline is
            not allowed in a one-line literal); `...` identifiers with the same backslash escapes.
  Spark SQL (escapedStringLiterals=false): "..." / '...' strings with backslash escapes only (adjacent literals are
            concatenated, so a doubled quote silently disappears); `...` identifiers with `` doubled.
A lexer returns the decoded value when the whole text is exactly one literal of the requested kind, else None.
"""
from typing import List, Optional

import data_algebra.BigQuery
import data_algebra.MySQL
import data_algebra.PostgreSQL
import data_algebra.SQLite
import data_algebra.SparkSQL
from data_algebra.sql_model import _clean_annotation

BS = chr(92)

M = {
    "sqlite": data_algebra.SQLite.SQLiteModel(),
    "postgresql": data_algebra.PostgreSQL.PostgreSQLModel(),
    "mysql": data_algebra.MySQL.MySQLModel(),
    "bigquery": data_algebra.BigQuery.BigQueryModel(),
    "spark": data_algebra.SparkSQL.SparkSQLModel(),
}

# how each dialect reads a quoted token: (doubling_is_escape, backslash_is_escape, raw_newline_allowed)
STRING_RULES = {
    "sqlite": (True, False, True),
    "postgresql": (True, False, True),
    "mysql": (True, True, True),
    "bigquery": (False, True, False),
    "spark": (False, True, True),
}
IDENT_RULES = {
    "sqlite": (True, False, True),
    "postgresql": (True, False, True),
    "mysql": (True, False, True),
    "bigquery": (False, True, True),
    "spark": (True, False, True),
}
_ESC = {"n": "\n", "r": "\r", "t": "\t", "0": "\0", "b": "\b", "Z": "\x1a", BS: BS, "'": "'", '"': '"', "`": "`"}


def lex_quoted(text: str, q: str, doubling: bool, backslash: bool, raw_newline: bool) -> Optional[str]:
    """decode `text` as exactly one q-quoted token under the given rules; None if it is not exactly one token"""
    n = len(text)
    if n < 2 or text[0] != q:
        return None
    out = []
    i = 1
    while i < n:
        c = text[i]
        if backslash and c == BS:
            if i + 1 >= n:
                return None
            e = text[i + 1]
            if e in _ESC:
                out.append(_ESC[e])
            elif e in "%_":
                out.append(BS + e)
            else:
                out.append(e)
            i += 2
            continue
        if c == q:
            if doubling and i + 1 < n and text[i + 1] == q:
                out.append(q)
                i += 2
                continue
            if i == n - 1:
                return "".join(out)
            return None
        if (not raw_newline) and (c == "\n" or c == "\r"):
            return None
        out.append(c)
        i += 1
    return None


def lex_string(d: str, text: str) -> Optional[str]:
    dbl, bsl, nl = STRING_RULES[d]
    return lex_quoted(text, M[d].string_quote, dbl, bsl, nl)


def lex_ident(d: str, text: str) -> Optional[str]:
    dbl, bsl, nl = IDENT_RULES[d]
    return lex_quoted(text, M[d].identifier_quote, dbl, bsl, nl)


# ---------------------------------------------------------------------------------- string literals
def string_sqlite(s: str) -> bool:
    """
    pre: len(s) <= 3
    post: _ == True
    """
    return lex_string("sqlite", M["sqlite"].quote_string(s)) == s


def string_postgresql(s: str) -> bool:
    """
    pre: len(s) <= 3
    post: _ == True
    """
    return lex_string("postgresql", M["postgresql"].quote_string(s)) == s


def string_mysql(s: str) -> bool:
    """
    pre: len(s) <= 3
    post: _ == True
    """
    return lex_string("mysql", M["mysql"].quote_string(s)) == s


def string_bigquery(s: str) -> bool:
    """
    pre: len(s) <= 3
    post: _ == True
    """
    return lex_string("bigquery", M["bigquery"].quote_string(s)) == s


def string_spark(s: str) -> bool:
    """
    pre: len(s) <= 3
    post: _ == True
    """
    return lex_string("spark", M["spark"].quote_string(s)) == s


# ---------------------------------------------------------------------------------- identifiers
def _ident_ok(d: str, n: str) -> bool:
    if M[d].identifier_quote in n:
        try:
            M[d].quote_identifier(n)
        except ValueError:
            return True  # the property excludes names containing the identifier quote; refusing them is fine
        return True
    return lex_ident(d, M[d].quote_identifier(n)) == n


def ident_sqlite(n: str) -> bool:
    """
    pre: len(n) <= 3
    post: _ == True
    """
    return _ident_ok("sqlite", n)


def ident_postgresql(n: str) -> bool:
    """
    pre: len(n) <= 3
    post: _ == True
    """
    return _ident_ok("postgresql", n)


def ident_mysql(n: str) -> bool:
    """
    pre: len(n) <= 3
    post: _ == True
    """
    return _ident_ok("mysql", n)


def ident_bigquery(n: str) -> bool:
    """
    pre: len(n) <= 3
    post: _ == True
    """
    return _ident_ok("bigquery", n)


def ident_spark(n: str) -> bool:
    """
    pre: len(n) <= 3
    post: _ == True
    """
    return _ident_ok("spark", n)


# ---------------------------------------------------------------------------------- value lists: ('a', 'b')
def _split_list(d: str, text: str) -> Optional[List[str]]:
    """decode "(<lit>, <lit>)" into its two values by trying every split point (reference, not efficient)"""
    if len(text) < 2 or text[0] != "(" or text[-1] != ")":
        return None
    body = text[1:-1]
    found = None
    for i in range(len(body) - 1):
        if body[i : i + 2] == ", ":
            a = lex_string(d, body[:i])
            b = lex_string(d, body[i + 2 :])
            if a is not None and b is not None:
                if found is not None and found != [a, b]:
                    return None  # ambiguous
                found = [a, b]
    return found


def list_sqlite(a: str, b: str) -> bool:
    """
    pre: len(a) <= 2 and len(b) <= 2
    post: _ == True
    """
    return _split_list("sqlite", M["sqlite"].value_to_sql([a, b])) == [a, b]


def list_postgresql(a: str, b: str) -> bool:
    """
    pre: len(a) <= 2 and len(b) <= 2
    post: _ == True
    """
    return _split_list("postgresql", M["postgresql"].value_to_sql([a, b])) == [a, b]


# ---------------------------------------------------------------------------------- annotations stay on one line
def annotation_one_line(a: str) -> bool:
    """
    pre: len(a) <= 4
    post: _ == True
    """
    c = _clean_annotation(a)
    return ("\n" not in c) and ("\r" not in c) and ("%" not in c)


# ---------------------------------------------------------------------------------- structured long inputs: many quotes / backslashes
def repeated_quotes_sqlite(n: int, m: int) -> bool:
    """
    pre: 0 <= n <= 12 and 0 <= m <= 3
    post: _ == True
    """
    s = "a" * m + "'" * n + "b" * m
    return lex_string("sqlite", M["sqlite"].quote_string(s)) == s


def repeated_quotes_postgresql(n: int, m: int) -> bool:
    """
    pre: 0 <= n <= 12 and 0 <= m <= 3
    post: _ == True
    """
    s = "x" * m + "'" * n
    return lex_string("postgresql", M["postgresql"].quote_string(s)) == s


def repeated_quotes_mysql(n: int, k: int) -> bool:
    """
    pre: 0 <= n <= 12 and 0 <= k <= 6
    post: _ == True
    """
    s = "'" * n + BS * k + "'"
    return lex_string("mysql", M["mysql"].quote_string(s)) == s


def repeated_quotes_bigquery(n: int, k: int) -> bool:
    """
    pre: 0 <= n <= 12 and 0 <= k <= 6
    post: _ == True
    """
    s = '"' * n + BS * k
    return lex_string("bigquery", M["bigquery"].quote_string(s)) == s


def repeated_quotes_spark(n: int, k: int) -> bool:
    """
    pre: 0 <= n <= 12 and 0 <= k <= 6
    post: _ == True
    """
    s = BS * k + '"' * n + "z"
    return lex_string("spark", M["spark"].quote_string(s)) == s


# ---------------------------------------------------------------------------------- vacuity twin
def twin_string_sqlite_never_doubles(s: str) -> bool:
    """
    pre: len(s) <= 3
    post: _ == True
    """
    return len(M["sqlite"].quote_string(s)) == len(s) + 2  # deliberately false when s contains a quote
