"""C20 contract functions (CrossHair / PEP316) over the real DataModelSpace and DBSpace.

One *inductive step* from an arbitrary symbolic state: state = any Dict[str,int] (table contents are opaque ints),
any counter n >= 0.  Every reachable state of a data space has that form (user keys are arbitrary strings, the
counter only grows), so histories of any length follow by induction; the stated bound is on the size of the map
and the key lengths only.

Stubs (part of the claim): the data model accepts every value; describe_table returns (name,value); the database
handle is a dict-backed table store with the documented DBHandle contract (insert_table refuses an existing table
unless allow_overwrite, drop_table ignores a missing table, create_table refuses an existing table and evaluates
its query on the *current* tables, read_table / describe_table fail on a missing table).  A 'pipeline' is the pair
(src, delta): read table src and add delta -- enough to observe on which contents a pipeline was evaluated.
"""
from typing import Dict, Optional

import data_algebra.data_model
import data_algebra.data_model_space as dms
import data_algebra.data_ops
import data_algebra.db_model
import data_algebra.db_space as dbs


class _StubModel(data_algebra.data_model.DataModel):
    def __init__(self):
        data_algebra.data_model.DataModel.__init__(self, presentation_model_name="stub", module=None)

    def is_appropriate_data_instance(self, df):
        return True

    def data_frame(self, arg=None):
        return 0

    def clean_copy(self, df):
        return df

    def to_pandas(self, df):
        return df

    def drop_indices(self, df):
        pass

    def bad_column_positions(self, x):
        return []

    def table_is_keyed_by_columns(self, table, *, column_names):
        return True

    def concat_rows(self, frame_list):
        return 0

    def concat_columns(self, frame_list):
        return 0

    def get_cell(self, *, d, row, colname):
        return 0

    def set_col(self, *, d, colname, values):
        return d

    def eval(self, op, *, data_map):
        return 0

    def blocks_to_rowrecs(self, data, *, blocks_in):
        return data

    def rowrecs_to_blocks(self, data, *, blocks_out):
        return data


class _Descr:
    """table description stand-in; usable as the trivial pipeline 'read this table' (src, delta=0)"""

    def __init__(self, table_name, value):
        self.table_name = table_name
        self.value = value
        self.src = table_name
        self.delta = 0


# describe_table is reporting, not the subject: stub
data_algebra.data_ops.describe_table = lambda d, table_name=None, **kw: _Descr(table_name, d)


class _Ops:
    """stand-in pipeline: read table `src`, add `delta`"""

    def __init__(self, src, delta):
        self.src, self.delta = src, delta

    def eval(self, data_map, data_model=None, **kw):
        return data_map[self.src] + self.delta


MAP = dict  # the forksym driver swaps in an association-list dict so that symbolic keys compare by ==


def _mk_dms(pre, n):
    sp = dms.DataModelSpace(data_model=_StubModel())
    sp.data_map = MAP(pre)
    sp.n_tmp = n
    return sp


def _has(keys, k):
    for x in keys:
        if x == k:
            return True
    return False


def _keys_same(a, b):
    a, b = list(a), list(b)
    if len(a) != len(b):
        return False
    for k in a:
        if not _has(b, k):
            return False
    return True


def _same(m, ref):
    if not _keys_same(m.keys(), ref.keys()):
        return False
    for k in ref.keys():
        if not (m[k] == ref[k]):
            return False
    return True


def _without(pre, key):
    exp = MAP()
    for k in pre.keys():
        if not (k == key):
            exp[k] = pre[k]
    return exp


# ------------------------------------------------------------------------------------------- DataModelSpace
def dms_insert(pre: Dict[str, int], n: int, key: Optional[str], v: int, ow: bool) -> bool:
    """
    pre: n >= 0 and len(pre) <= 2 and all(len(k) <= 10 for k in pre)
    pre: key is None or len(key) <= 10
    post: _ == True
    """
    sp = _mk_dms(pre, n)
    try:
        d = sp.insert(key=key, value=v, allow_overwrite=ow)
    except AssertionError:
        # refusing is only legitimate for an explicit existing key with overwrite off; nothing may change
        return (key is not None) and (not ow) and (key in pre) and _same(sp.data_map, pre)
    k = d.table_name
    if key is not None and not (k == key):
        return False
    if key is None and k in pre:
        return False  # an automatic name replaced an entry
    if (not ow) and k in pre:
        return False
    exp = MAP(pre)
    exp[k] = v
    return _same(sp.data_map, exp) and _keys_same(sp.keys(), exp.keys()) and (sp.retrieve(k) == v) and (sp.describe(k).table_name == k)


def dms_execute(pre: Dict[str, int], n: int, key: Optional[str], src: str, delta: int, ow: bool) -> bool:
    """
    pre: n >= 0 and len(pre) <= 2 and all(len(k) <= 10 for k in pre) and src in pre
    pre: key is None or len(key) <= 10
    post: _ == True
    """
    sp = _mk_dms(pre, n)
    want = pre[src] + delta
    try:
        d = sp.execute(_Ops(src, delta), key=key, allow_overwrite=ow)
    except AssertionError:
        return (key is not None) and (not ow) and (key in pre) and _same(sp.data_map, pre)
    k = d.table_name
    if key is not None and not (k == key):
        return False
    if key is None and k in pre:
        return False
    if (not ow) and k in pre:
        return False
    exp = MAP(pre)
    exp[k] = want
    return _same(sp.data_map, exp) and sp.retrieve(k) == want


def dms_remove_read(pre: Dict[str, int], n: int, key: str) -> bool:
    """
    pre: n >= 0 and len(pre) <= 3 and all(len(k) <= 10 for k in pre) and len(key) <= 10
    post: _ == True
    """
    sp = _mk_dms(pre, n)
    if not _keys_same(sp.keys(), pre.keys()):
        return False
    if key in pre:
        if not (sp.retrieve(key) == pre[key]) or not (sp.describe(key).table_name == key):
            return False
        sp.remove(key)
        exp = _without(pre, key)
        return _same(sp.data_map, exp) and _keys_same(sp.keys(), exp.keys())
    try:
        sp.remove(key)
    except KeyError:
        pass
    else:
        return False
    try:
        sp.retrieve(key)
    except KeyError:
        return _same(sp.data_map, pre)
    return False


# ------------------------------------------------------------------------------------------- DBSpace
class StubHandle(data_algebra.db_model.DBHandle):
    """dict-backed database: table name -> value id"""

    def __init__(self, tables):
        self.tables = tables
        self.db_model = None
        self.conn = None
        self.db_engine = None

    def describe_table(self, table_name, *, qualifiers=None, row_limit=7):
        return _Descr(table_name, self.tables[table_name])

    def insert_table(self, d, *, table_name, allow_overwrite=False):
        if (table_name in self.tables) and (not allow_overwrite):
            raise ValueError("table " + table_name + " already exists")
        self.tables[table_name] = d
        return _Descr(table_name, d)

    def drop_table(self, table_name):
        if table_name in self.tables:
            del self.tables[table_name]

    def read_table(self, table_name):
        return self.tables[table_name]

    def create_table(self, *, table_name, q):
        if table_name in self.tables:
            raise ValueError("table exists")
        self.tables[table_name] = self.tables[q.src] + q.delta
        return _Descr(table_name, self.tables[table_name])

    def close(self):
        pass


def _mk_dbs(pre, n):
    h = StubHandle(MAP(pre))
    sp = dbs.DBSpace(h)
    sp.n_tmp = n
    sp.description_map = MAP([(k, _Descr(k, pre[k])) for k in pre.keys()])
    sp.eligable_for_auto_drop_list = set(pre.keys())
    return sp, h


def _db_ok(sp, h, exp):
    """the space and the database both reflect exactly exp"""
    if not _keys_same(sp.keys(), exp.keys()) or not _same(h.tables, exp):
        return False
    for k in exp.keys():
        v = exp[k]
        if not (sp.retrieve(k) == v):
            return False
        d = sp.describe(k)
        if not (d.table_name == k) or not (d.value == v):
            return False
    return True


def dbs_insert(pre: Dict[str, int], n: int, key: Optional[str], v: int, ow: bool) -> bool:
    """
    pre: n >= 0 and len(pre) <= 2 and all(len(k) <= 10 for k in pre)
    pre: key is None or len(key) <= 10
    post: _ == True
    """
    sp, h = _mk_dbs(pre, n)
    try:
        d = sp.insert(key=key, value=v, allow_overwrite=ow)
    except (AssertionError, ValueError):
        return (key is not None) and (not ow) and (key in pre) and _db_ok(sp, h, pre)
    k = d.table_name
    if key is not None and not (k == key):
        return False
    if key is None and k in pre:
        return False
    if (not ow) and k in pre:
        return False
    exp = MAP(pre)
    exp[k] = v
    return _db_ok(sp, h, exp)


def dbs_execute(pre: Dict[str, int], n: int, key: Optional[str], src: str, delta: int, ow: bool) -> bool:
    """
    pre: n >= 0 and len(pre) <= 2 and all(len(k) <= 10 for k in pre) and src in pre
    pre: key is None or len(key) <= 10
    post: _ == True
    """
    sp, h = _mk_dbs(pre, n)
    want = pre[src] + delta
    try:
        d = sp.execute(_Ops(src, delta), key=key, allow_overwrite=ow)
    except (AssertionError, ValueError):
        return (key is not None) and (not ow) and (key in pre) and _db_ok(sp, h, pre)
    k = d.table_name
    if key is not None and not (k == key):
        return False
    if key is None and k in pre:
        return False
    if (not ow) and k in pre:
        return False
    exp = MAP(pre)
    exp[k] = want
    return _db_ok(sp, h, exp)


def dbs_remove_read(pre: Dict[str, int], n: int, key: str) -> bool:
    """
    pre: n >= 0 and len(pre) <= 3 and all(len(k) <= 10 for k in pre) and len(key) <= 10
    post: _ == True
    """
    sp, h = _mk_dbs(pre, n)
    if not _db_ok(sp, h, pre):
        return False
    if key in pre:
        sp.remove(key)
        exp = _without(pre, key)
        return _db_ok(sp, h, exp)
    try:
        sp.remove(key)
    except KeyError:
        pass
    else:
        return False
    try:
        sp.retrieve(key)
    except KeyError:
        return _db_ok(sp, h, pre)
    return False


# ------------------------------------------------------------------------------------------- vacuity twins
def twin_dms_insert_changes_nothing(pre: Dict[str, int], n: int, key: Optional[str], v: int, ow: bool) -> bool:
    """
    pre: n >= 0 and len(pre) <= 2 and all(len(k) <= 10 for k in pre)
    pre: key is None or len(key) <= 10
    post: _ == True
    """
    sp = _mk_dms(pre, n)
    try:
        sp.insert(key=key, value=v, allow_overwrite=ow)
    except AssertionError:
        return True
    return _same(sp.data_map, pre)  # deliberately false: an insert must be able to change the map


def twin_dbs_execute_changes_nothing(pre: Dict[str, int], n: int, key: Optional[str], src: str, delta: int, ow: bool) -> bool:
    """
    pre: n >= 0 and len(pre) <= 2 and all(len(k) <= 10 for k in pre) and src in pre
    pre: key is None or len(key) <= 10
    post: _ == True
    """
    sp, h = _mk_dbs(pre, n)
    try:
        sp.execute(_Ops(src, delta), key=key, allow_overwrite=ow)
    except (AssertionError, ValueError, KeyError):
        return True
    return _same(h.tables, pre)
