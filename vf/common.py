"""Shared plumbing: evidence files, known findings, replay files, exit codes."""
from __future__ import annotations

import json
import os
import sys
import time
import hashlib

ROOT = os.path.dirname(os.path.dirname(os.path.abspath(__file__)))
REPO = os.environ.get("VERIF_REPO", "/repo")
EVID = os.path.join(ROOT, "evidence")
REPLAY = os.path.join(ROOT, "replay")
KF_FILE = os.path.join(ROOT, "known_findings.json")

EXIT_OK, EXIT_VIOLATION, EXIT_HARNESS = 0, 1, 2


def tier_default():
    return os.environ.get("VERIF_TIER", "quick")


def seed_default():
    try:
        return int(os.environ.get("VERIF_SEED", "0"))
    except ValueError:
        return 0


def load_known_findings(prop):
    try:
        with open(KF_FILE) as f:
            kf = json.load(f)
    except FileNotFoundError:
        return []
    def _match(e):
        p = e.get("property")
        return (prop in p) if isinstance(p, (list, tuple)) else p == prop

    return [e for e in kf.get("findings", []) if _match(e) and e.get("status", "open") == "open"]


def jsonable(x):
    try:
        json.dumps(x)
        return x
    except TypeError:
        if isinstance(x, dict):
            return {str(k): jsonable(v) for k, v in x.items()}
        if isinstance(x, (list, tuple, set)):
            return [jsonable(v) for v in x]
        return repr(x)


def write_replay(prop, payload) -> str:
    d = os.path.join(REPLAY, prop)
    os.makedirs(d, exist_ok=True)
    body = json.dumps(jsonable(payload), indent=1, sort_keys=True, default=repr)
    h = hashlib.sha1(body.encode()).hexdigest()[:10]
    p = os.path.join(d, f"{h}.json")
    with open(p, "w") as f:
        f.write(body)
    return p


class Report:
    """Collects what a check run did; writes evidence; decides exit code."""

    def __init__(self, prop, level, tier=None, seed=None):
        self.prop = prop
        self.level = level
        self.tier = tier or tier_default()
        self.seed = seed_default() if seed is None else seed
        self.t0 = time.time()
        self.coverage = {}
        self.assumptions = []
        self.violations = []  # (replay_path, text)
        self.known = []  # text lines
        self.harness_errors = []
        self.lines = []

    def violation(self, payload, text=""):
        p = write_replay(self.prop, payload)
        self.violations.append((p, text))
        return p

    def known_finding(self, text):
        if text not in self.known:
            self.known.append(text)

    def harness_error(self, text):
        self.harness_errors.append(text)

    def finish(self):
        wall = time.time() - self.t0
        os.makedirs(EVID, exist_ok=True)
        cov = jsonable(self.coverage)
        ev = {
            "property_id": self.prop,
            "tier": self.tier,
            "seed": self.seed,
            "level": self.level,
            "coverage": cov,
            "assumptions": list(self.assumptions),
            "wall_s": round(wall, 2),
            "violations": len(self.violations),
            "known_findings_reported": list(self.known),
            "harness_errors": self.harness_errors[:20],
        }
        tmp = os.path.join(EVID, f".{self.prop}.{os.getpid()}.tmp")
        with open(tmp, "w") as f:
            json.dump(ev, f, indent=1, default=repr)
        sfx = os.environ.get("VERIF_EVID_SUFFIX", "")
        os.replace(tmp, os.path.join(EVID, f"{self.prop}{sfx}.json"))
        if self.tier == "thorough" and not sfx:
            # the last thorough run is also kept beside the (usually quick) evidence file, which every run overwrites
            os.makedirs(os.path.join(EVID, "thorough"), exist_ok=True)
            with open(os.path.join(EVID, "thorough", f"{self.prop}.json"), "w") as f:
                json.dump(ev, f, indent=1, default=repr)
        for k in self.known:
            print(f"KNOWN-FINDING: property={self.prop} {k}")
        for p, text in self.violations[:5]:
            print(f"VIOLATION property={self.prop} replay={p}" + (f"  # {text[:600]}" if text else ""))
        if len(self.violations) > 5:
            print(f"... {len(self.violations) - 5} more violations (replay files under replay/{self.prop}/)")
        for h in self.harness_errors[:10]:
            print(f"HARNESS-ERROR property={self.prop} {h}", file=sys.stderr)
        summ = {k: v for k, v in cov.items() if isinstance(v, (int, float, bool))}
        print(f"SUMMARY property={self.prop} tier={self.tier} wall_s={wall:.1f} violations={len(self.violations)} "
              f"known={len(self.known)} harness_errors={len(self.harness_errors)} {json.dumps(summ)}")
        if self.violations:
            return EXIT_VIOLATION
        if self.harness_errors:
            return EXIT_HARNESS
        return EXIT_OK
