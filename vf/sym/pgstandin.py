"""Stand-in engine for replaying PostgreSQL-dialect SQL: SQLite >= 3.39 (native RIGHT/FULL JOIN, CTEs, windows) with LN / POWER /
STDDEV_SAMP / VAR_SAMP registered.  No PostgreSQL server exists in the sandbox; only counterexamples that reproduce here are reported."""
from __future__ import annotations

import math
import sqlite3
import warnings


def run(sql, frames):
    import pandas as pd
    import data_algebra.SQLite
    from vf.sym import rel

    # SQLite casts a non-numeric string to 0: spell the PostgreSQL infinity literals the way SQLite understands them
    sql = sql.replace("CAST('+infinity' AS DOUBLE PRECISION)", "9e999").replace("CAST('-infinity' AS DOUBLE PRECISION)", "-9e999")
    conn = sqlite3.connect(":memory:")
    try:
        m = data_algebra.SQLite.SQLiteModel()
        m.prepare_connection(conn)
        conn.create_function("ln", 1, lambda x: None if x is None or x <= 0 else math.log(x))
        conn.create_function("random", 0, lambda: 0.5)
        conn.create_aggregate("stddev_samp", 1, data_algebra.SQLite.SampStdDevAgg)
        conn.create_aggregate("var_samp", 1, data_algebra.SQLite.SampVarDevAgg)
        with warnings.catch_warnings():
            warnings.simplefilter("ignore")
            for k, v in frames.items():
                if v.shape[1] == 0:
                    return None, "table without columns"
                v.to_sql(k, conn, index=False)
            res = pd.read_sql_query(sql, conn)
        return rel._frame_to_rows(res), None
    except Exception as e:
        return None, f"{type(e).__name__}: {str(e)[:200]}"
    finally:
        conn.close()
