"""SQLite user functions: the REAL Python callables that SQLiteModel.prepare_connection registers (SQLite.py, current source) are
executed on numeric proxies, so that e.g. is_bad / sign / abs / floor / ceil in emitted SQL mean what the repository's code says."""
from __future__ import annotations

import math
import numbers

import z3

from vf.sym import cell as C
from vf.sym import pdshim
from vf.sym.cell import Cell, Unmodelled, lit, null_cell, decide, FALSE, zor
from vf.sym import load


class NumProxy:
    """a non-null SQL number handed to a Python UDF"""

    def __init__(self, term, isint):
        self.t = term
        self.isint = isint

    def _o(self, o):
        if isinstance(o, NumProxy):
            return o.t
        if isinstance(o, bool):
            return z3.IntVal(int(o))
        if isinstance(o, int):
            return z3.IntVal(o)
        if isinstance(o, float):
            return lit(o).val
        raise Unmodelled(f"UDF arithmetic with {type(o)}")

    def _both(self, o):
        a, b = self.t, self._o(o)
        if z3.is_int(a) != z3.is_int(b):
            a = z3.ToReal(a) if z3.is_int(a) else a
            b = z3.ToReal(b) if z3.is_int(b) else b
        return a, b

    def __gt__(self, o):
        a, b = self._both(o)
        return C.B(a > b)

    def __lt__(self, o):
        a, b = self._both(o)
        return C.B(a < b)

    def __ge__(self, o):
        a, b = self._both(o)
        return C.B(a >= b)

    def __le__(self, o):
        a, b = self._both(o)
        return C.B(a <= b)

    def __eq__(self, o):
        a, b = self._both(o)
        return C.B(a == b)

    def __ne__(self, o):
        return not self.__eq__(o)

    __hash__ = None

    def __neg__(self):
        return NumProxy(-self.t, self.isint)

    def _real(self, o=None):
        t = self.t if o is None else self._o(o)
        return z3.ToReal(t) if z3.is_int(t) else t

    def __mul__(self, o):
        return NumProxy(self._real() * self._real(o), False)

    __rmul__ = __mul__

    def __truediv__(self, o):
        if isinstance(o, NumProxy):
            raise Unmodelled("UDF division by a symbolic value")
        return NumProxy(self._real() / self._real(o), False)

    def __add__(self, o):
        return NumProxy(self._real() + self._real(o), False)

    __radd__ = __add__

    def __sub__(self, o):
        return NumProxy(self._real() - self._real(o), False)

    def __floor__(self):
        return self if self.isint else NumProxy(z3.ToInt(self.t), True)

    def __ceil__(self):
        return self if self.isint else NumProxy(-z3.ToInt(-self.t), True)

    def __trunc__(self):
        if self.isint:
            return self
        return NumProxy(z3.If(self.t >= 0, z3.ToInt(self.t), -z3.ToInt(-self.t)), True)

    def __float__(self):
        raise Unmodelled("UDF needs a concrete float (C-level math function)")

    __index__ = __float__


numbers.Number.register(NumProxy)


class StrProxy:
    def __init__(self, term):
        self.t = term


def _to_arg(c: Cell):
    if decide(c.null, (c,)):
        return None
    if c.kind == "s":
        return StrProxy(c.val)
    if c.kind == "b":
        return NumProxy(C.num(c), True)
    return NumProxy(c.val, c.kind == "i")


def _to_cell(r, dc, kf):
    if r is None:
        c = null_cell("f")
    elif isinstance(r, NumProxy):
        c = Cell(FALSE, r.t, "i" if r.isint else "f")
    elif isinstance(r, StrProxy):
        c = Cell(FALSE, r.t, "s")
    elif isinstance(r, bool):
        c = lit(r)
    elif isinstance(r, float) and r != r:
        c = null_cell("f")  # a UDF returning nan: SQLite stores NULL
    elif isinstance(r, (int, float)):
        c = lit(r)
    else:
        raise Unmodelled(f"UDF returned {type(r)}")
    return Cell(c.null, c.val, c.kind, dc, kf)


def _wrap(fn):
    def udf(*cells):
        dc, kf = C.taint(*cells)
        args = [_to_arg(c) for c in cells]
        return _to_cell(fn(*args), dc, kf)

    return udf


class _FakeConn:
    def __init__(self):
        self.fns = {}
        self.aggs = {}

    def create_function(self, name, nargs, fn, **kw):
        self.fns[(name.upper(), nargs)] = fn

    def create_aggregate(self, name, nargs, cls):
        self.aggs[name.upper()] = cls


def _scalar_isinf(x):
    if isinstance(x, NumProxy):
        if C.INF_ON[0] and not x.isint:
            return C.B(zor(x.t == C.PINF, x.t == C.NINF))
        return False
    return math.isinf(x)


def _scalar_isnan(x):
    if isinstance(x, NumProxy):
        return False
    return x != x


_UDFS = None


def sqlite_udfs():
    """{NAME: callable(*Cells) -> Cell} for the functions prepare_connection registers, backed by the repository's own callables"""
    global _UDFS
    if _UDFS is not None:
        return _UDFS
    import types

    np_for_udf = types.ModuleType("symnp_udf")
    real_symnp = load.symnp()
    for k, v in vars(real_symnp).items():
        if not k.startswith("__"):
            setattr(np_for_udf, k, v)
    np_for_udf.isinf = _scalar_isinf
    np_for_udf.isnan = _scalar_isnan

    def _proxy_list(xs):
        xs = list(xs)
        if not all(isinstance(x, (NumProxy, int, float)) and not isinstance(x, bool) for x in xs):
            raise Unmodelled("UDF aggregate over non-numbers")
        return [x._real() if isinstance(x, NumProxy) else lit(float(x)).val for x in xs]

    def _np_var(xs):  # numpy.var: population variance
        v = _proxy_list(xs)
        mean = z3.Sum(v) / len(v)
        return NumProxy(z3.Sum([(a - mean) * (a - mean) for a in v]) / len(v), False)

    def _np_median(xs):
        return NumProxy(pdshim._var_or_median("median", _proxy_list(xs)).val, False)

    def _np_std(xs):
        raise Unmodelled("std (square root: outside the polynomial fragment)")

    np_for_udf.var, np_for_udf.median, np_for_udf.std = _np_var, _np_median, _np_std
    m = load.private_copy("SQLite", {"numpy": np_for_udf}, tag="udf")
    # the aggregate classes end in float(numpy.<fn>(...)): float() of a symbolic number is the number itself
    m.float = lambda v: v if isinstance(v, NumProxy) else float(v)
    conn = _FakeConn()
    m.SQLiteModel().prepare_connection(conn)
    out = {}
    uninterpreted = {"ACOS": "arccos", "ACOSH": "arccosh", "ASIN": "arcsin", "ASINH": "arcsinh", "ATAN": "arctan", "ATANH": "arctanh",
                     "COS": "cos", "COSH": "cosh", "EXP": "exp", "EXPM1": "expm1", "LOG": "log", "LOG10": "log10", "LOG1P": "log1p",
                     "LOG2": "log2", "SIN": "sin", "SINH": "sinh", "SQRT": "sqrt", "TAN": "tan", "TANH": "tanh", "ARCCOS": "arccos",
                     "ARCCOSH": "arccosh", "ARCSIN": "arcsin", "ARCSINH": "arcsinh", "ARCTAN": "arctan", "ARCTANH": "arctanh",
                     "DEGREES": "degrees", "RADIANS": "radians"}
    for (name, nargs), fn in conn.fns.items():
        if name in uninterpreted:
            # the registered callable ends in a C-level math function: null handling is the wrapper's (_wrap_scalar_fn: bad -> nan),
            # the value is the shared uninterpreted symbol
            out[name] = pdshim._uninterp(uninterpreted[name])
        elif name in ("IS_BAD", "IS_NAN", "IS_INF", "SIGN", "ABS", "FLOOR", "CEIL", "CEILING", "TRUNC"):
            out[name] = _wrap(fn)
        elif name in ("POW", "POWER"):
            out[name] = pdshim._power

    def _wrap_agg(cls):
        def agg(cells):
            dc, kf = C.taint(*cells) if cells else (FALSE, FALSE)
            a = cls()  # the repository's aggregate class: step() per row, finalize() at the end
            for c in cells:
                a.step(_to_arg(c))
            return _to_cell(a.finalize(), dc, kf)

        return agg

    for name, cls in conn.aggs.items():
        out["AGG:" + name] = _wrap_agg(cls)
    _UDFS = out
    return out
