"""Run a list of translation-validation jobs in parallel and fold the results into a Report (violations, known findings, evidence)."""
from __future__ import annotations

import json
import os
import time
import traceback

from vf import forksym
from vf.common import Report, load_known_findings
from vf.sym import tv


_DEADLINE = [None]  # wall-clock deadline of the whole run (thorough tier only); jobs that would start after it are reported as not run
_SKIP = {"status": "not_run_time_budget", "notes": [], "paths": 0, "discharged": 0, "cex": 0, "unknown": 0, "outside": 0, "known": 0, "errors": 0,
         "truncated": False, "branch_queries": 0, "assert_queries": 0, "solver_s": 0.0, "findings": [], "validated": 0, "divergences": [], "kf_used": {},
         "unmodelled": {}}


def _job_worker(job):
    if _DEADLINE[0] is not None and time.time() > _DEADLINE[0]:
        return dict(_SKIP, id=job.get("id"))
    try:
        return tv.run_job(job)
    except BaseException:
        return {"id": job.get("id"), "status": "crash", "notes": [traceback.format_exc()[-800:]], "paths": 0, "discharged": 0, "cex": 0,
                "unknown": 0, "outside": 0, "known": 0, "errors": 0, "truncated": False, "branch_queries": 0, "assert_queries": 0,
                "solver_s": 0.0, "findings": [], "validated": 0, "divergences": [], "kf_used": {}, "unmodelled": {}}


def run_jobs(jobs, nproc=16):
    import multiprocessing as mp

    if not jobs:
        return []
    # VERIF_RUN_BUDGET_S: wall budget of the whole job list (default: none in the quick tier, 1200 s in the thorough tier).  When it is
    # set the jobs run in a fixed pseudo-random order, so that what is left out at the deadline is a spread sample, and evidence counts it.
    budget = os.environ.get("VERIF_RUN_BUDGET_S")
    if budget is None and os.environ.get("VERIF_TIER") == "thorough":
        budget = "1200"
    order = list(range(len(jobs)))
    if budget and float(budget) > 0:
        import hashlib

        _DEADLINE[0] = time.time() + float(budget)
        order.sort(key=lambda i: hashlib.sha256(str(jobs[i].get("id")).encode()).hexdigest())
    else:
        _DEADLINE[0] = None
    nproc = min(nproc, os.cpu_count() or 1, len(jobs))
    if nproc <= 1:
        res = [_job_worker(jobs[i]) for i in order]
    else:
        ctx = mp.get_context("fork")
        with ctx.Pool(nproc, maxtasksperchild=300) as pool:
            res = pool.map(_job_worker, [jobs[i] for i in order], chunksize=1)
    out = [None] * len(jobs)
    for i, r in zip(order, res):
        out[i] = r
    return out


def kf_taints(prop):
    """known-finding entries of a property: ({taint/event names}, entries)"""
    ents = load_known_findings(prop)
    names = set()
    for e in ents:
        names.update(e.get("taints", []))
    return names, ents


def replay_known(rep, prop, entries):
    """replay each listed finding's stored witness on the REAL engines; print KNOWN-FINDING only if it still fails as recorded"""
    from vf.sym import rel

    for e in entries:
        w = e.get("witness")
        if not w:
            continue
        try:
            still = replay_witness(w)
        except Exception:
            rep.harness_error(f"known finding {e.get('id')}: witness replay crashed: {traceback.format_exc()[-300:]}")
            continue
        if still:
            rep.known_finding(f"{e.get('id')}: {e.get('what_fails')}")


def replay_witness(w):
    """w = {"A": side, "B": side, "schema":..., "input": {table: {col: [values]}}, "ordered": bool} -> True if the real engines still disagree"""
    from vf.sym import rel

    A, B = tv.make_side(w["A"]), tv.make_side(w["B"])
    A.prepare()
    B.prepare()
    schema = {t: [tuple(c) for c in cols] for t, cols in w["schema"].items()}
    frames = rel.real_frames(w["input"], schema)
    ra, ea = A.real(frames)
    rb, eb = B.real(frames)
    if (ea is None) != (eb is None):
        return True
    if ea is not None:
        return False
    return not rel.concrete_tables_match(ra[0], ra[1], rb[0], rb[1], ordered=bool(w.get("ordered")))


def fold(rep: Report, prop, jobs, results, explanation, extra_cov=None, min_conclusive=0.5):
    """aggregate job results into rep (coverage + violations); returns summary dict"""
    tot = {k: 0 for k in ("paths", "discharged", "cex", "unknown", "outside", "known", "errors", "branch_queries", "assert_queries", "validated")}
    solver_s = 0.0
    nprog = 0
    not_prog = 0
    not_run = 0
    trunc = 0
    trunc_ids = []
    crashed = 0
    divergences = []
    unmodelled = {}
    kf_used = {}
    samples = []
    confirmed = []
    unconfirmed = []
    inconclusive_jobs = 0
    by_id = {j["id"]: j for j in jobs}
    for r in results:
        if r["status"] == "not_a_program":
            not_prog += 1
            continue
        if r["status"] == "not_run_time_budget":
            not_run += 1
            continue
        if r["status"] == "crash":
            crashed += 1
            rep.harness_error(f"job {r['id']} crashed: {r['notes'][:1]}")
            continue
        nprog += 1
        for k in tot:
            tot[k] += r.get(k, 0)
        solver_s += r.get("solver_s", 0.0)
        if r.get("truncated"):
            trunc += 1
            trunc_ids.append(f"{r['id']} (paths {r.get('paths')})")
        for d in r.get("divergences", []):
            divergences.append({"job": r["id"], **d})
        for k, v in r.get("unmodelled", {}).items():
            unmodelled[k] = unmodelled.get(k, 0) + v
        for k, v in r.get("kf_used", {}).items():
            kf_used[k] = kf_used.get(k, 0) + v
        if r["paths"] and r["discharged"] + r["cex"] + r["known"] == 0:
            inconclusive_jobs += 1
        for f in r.get("findings", []):
            rec = {"job": r["id"], "a": r.get("a"), "b": r.get("b"), **f}
            if f["status"] == "confirmed":
                confirmed.append(rec)
            else:
                unconfirmed.append(rec)
        for n in r.get("notes", []):
            if n.startswith("harness exception"):
                rep.harness_error(f"job {r['id']}: {n[:400]}")
        if len(samples) < 6 and r["paths"]:
            samples.append({"job": r["id"], "a": r.get("a"), "b": r.get("b"), "rows": by_id.get(r["id"], {}).get("rows"), "paths": r["paths"],
                            "discharged": r["discharged"], "outside": r["outside"], "known": r["known"]})
    # violations: one per distinct (job, why)
    seen = set()
    for f in confirmed:
        key = (f["job"], f["why"])
        if key in seen:
            continue
        seen.add(key)
        job = by_id.get(f["job"], {})
        payload = {"property": prop, "job": {k: job.get(k) for k in ("id", "schema", "rows", "A", "B", "ordered", "assume", "compare", "check_cols", "b_may_raise",
                                                                      "allow_window_ties", "inf", "int_div_exact", "kf_on", "renaming") if k in job}, "input": f.get("input"),
                   "why": f["why"], "engines": f.get("engines")}
        rep.violation(payload, f"{f['job']}: {f['why']} input={json.dumps(f.get('input'), default=str)[:300]}")
    for f in unconfirmed:
        divergences.append({"job": f["job"], "cex_not_reproduced": f.get("divergence") or f.get("error"), "input": f.get("input"), "why": f["why"]})
    cov = {
        "explanation": explanation,
        "programs": nprog,
        "not_programs_rejected_by_builder": not_prog, "programs_not_run_time_budget": not_run,
        "disagreements_checked": len(confirmed) + len(unconfirmed),
        "paths": tot["paths"], "discharged": tot["discharged"], "counterexamples": tot["cex"], "unknown": tot["unknown"],
        "outside_claim_paths": tot["outside"], "known_finding_paths": tot["known"], "path_errors": tot["errors"],
        "branch_queries": tot["branch_queries"], "assert_queries": tot["assert_queries"], "solver_s": round(solver_s, 2),
        "witnesses_validated_against_real_engines": tot["validated"], "model_divergences": len(divergences),
        "model_divergence_samples": divergences[:5], "truncated_programs": trunc, "truncated_program_ids": trunc_ids[:12], "unmodelled": dict(sorted(unmodelled.items(), key=lambda kv: -kv[1])[:12]),
        "known_finding_taints_used": kf_used, "samples": samples, "inconclusive_programs": inconclusive_jobs,
        "evaluations": tot["paths"], "distinct_nontrivial": tot["paths"],
        "rule": "one evaluation = one solver-feasible structural path of one program at one row-count vector",
    }
    if extra_cov:
        cov.update(extra_cov)
    rep.coverage = cov
    if nprog and inconclusive_jobs > nprog * (1 - min_conclusive):
        rep.harness_error(f"{inconclusive_jobs}/{nprog} programs inconclusive (unmodelled / outside claim on every path)")
    return cov
