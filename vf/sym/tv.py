"""Generic translation-validation job: two 'sides' computed from the same symbolic input tables must produce the same table.

A job is a picklable dict:
  {"id": str, "schema": {table: [(col, kind, nullable)]}, "rows": {table: n}, "A": side, "B": side,
   "ordered": bool|"auto", "assume": [assumption specs], "kf_on": [known-finding taint names], "kf_events": [event names]}
A side is a picklable dict {"kind": "pandas"|"sql"|..., ...}; see make_side().
Result: counts + list of findings (cex / raise-mismatch), each already replayed on the real engines.
"""
from __future__ import annotations

import json
import time
import traceback
import warnings

import z3

from vf import forksym
from vf.sym import cell as C
from vf.sym import pdshim, rel, load
from vf.sym.cell import Unmodelled, zand, zor, znot, FALSE, TRUE

PRELUDE = None


def ns():
    """namespace in which program source strings are evaluated"""
    global PRELUDE
    if PRELUDE is None:
        import data_algebra
        import data_algebra.data_ops
        import data_algebra.cdata
        from data_algebra import TableDescription, descr, data, ex
        import data_algebra.solutions
        import data_algebra.arrow
        import pandas as pd

        PRELUDE = {"data_algebra": data_algebra, "TableDescription": TableDescription, "descr": descr, "data": data, "ex": ex, "pd": pd,
                   "RecordMap": data_algebra.cdata.RecordMap, "RecordSpecification": data_algebra.cdata.RecordSpecification}
    return dict(PRELUDE)


def build_ops(src):
    with warnings.catch_warnings():
        warnings.simplefilter("ignore")
        return eval(src, ns())


_SQL_MODELS = {}


def sql_model(dialect, allow_extend_merges=None):
    key = (dialect, allow_extend_merges)
    if key not in _SQL_MODELS:
        if dialect == "sqlite":
            from data_algebra.SQLite import SQLiteModel as M
        elif dialect == "postgresql":
            from data_algebra.PostgreSQL import PostgreSQLModel as M
        else:
            raise ValueError(dialect)
        m = M()
        if allow_extend_merges is not None:
            m.allow_extend_merges = allow_extend_merges
        _SQL_MODELS[key] = m
    return _SQL_MODELS[key]


def to_sql(ops, dialect="sqlite", options=None, allow_extend_merges=None):
    from data_algebra.sql_format_options import SQLFormatOptions

    kw = dict(warn_on_method_support=False, warn_on_novel_methods=False, annotate=False)
    kw.update(options or {})
    with warnings.catch_warnings():
        warnings.simplefilter("ignore")
        return sql_model(dialect, allow_extend_merges).to_sql(ops, sql_format_options=SQLFormatOptions(**kw))


def _has_full_join(ops):
    if getattr(ops, "node_name", "") == "NaturalJoinNode" and str(getattr(ops, "jointype", "")).upper() == "FULL":
        return True
    return any(_has_full_join(s) for s in getattr(ops, "sources", []))


# ----------------------------------------------------------------------------------------------------------------- sides
class Side:
    name = "side"

    def prepare(self):
        """concrete, once per job (build pipeline, generate SQL ...); may raise -> job is 'not a program'"""

    def sym(self, tabs, nrows):
        raise NotImplementedError

    def real(self, frames):
        """-> ((cols, rows), exc)"""
        raise NotImplementedError

    def describe(self):
        return self.name


class PandasSide(Side):
    def __init__(self, src, inmap=None, outmap=None):
        self.src = src
        self.name = "pandas"
        self.inmap, self.outmap = inmap, outmap

    def prepare(self):
        self.ops = build_ops(self.src)

    def sym(self, tabs, nrows):
        indexes = None
        if self.inmap:
            indexes = {spec.get("table", t): spec["index"] for t, spec in self.inmap.items() if isinstance(spec, dict) and spec.get("index") is not None}
            tabs, nrows = apply_inmap(self.inmap, tabs, nrows)
        r = rel.run_pandas(self.ops, tabs, nrows, indexes=indexes)
        return apply_outmap(self.outmap, r)

    def real(self, frames):
        if self.inmap:
            frames = apply_inmap_real(self.inmap, frames)
        r, e = rel.real_pandas(self.ops, frames)
        return apply_outmap_real(self.outmap, r), e

    def describe(self):
        return "pandas: " + self.src + (f" inmap={self.inmap}" if self.inmap else "")


class RecordMapSide(Side):
    """RecordMap.transform(frame) called directly on a frame (no TableDescription step in front, so the frame's own column order reaches the transform)"""

    def __init__(self, rm_src, table, backend="pandas", inmap=None):
        self.rm_src, self.table, self.backend, self.inmap = rm_src, table, backend, inmap
        self.name = f"{backend} RecordMap.transform"

    def prepare(self):
        self.rm = build_ops_any(self.rm_src)

    def sym(self, tabs, nrows):
        if self.inmap:
            tabs, nrows = apply_inmap(self.inmap, tabs, nrows)
        try:
            with warnings.catch_warnings():
                warnings.simplefilter("ignore")
                if self.backend == "pandas":
                    model = load.sym_pandas_model()
                    res = self.rm.transform(rel.sym_frame(tabs[self.table], nrows[self.table]), local_data_model=model)
                    cols = list(res.columns)
                    return rel.SideResult(cols, [[res._cols[c][i] for c in cols] for i in range(res._n)])
                from vf.sym import plside, plshim

                model = plside.sym_polars_model(False)
                f = plshim.DataFrame({k: list(v) for k, v in tabs[self.table].items()}, _n=nrows[self.table])
                res = self.rm.transform(f, local_data_model=model)
                cols = list(res.columns)
                return rel.SideResult(cols, [[res._cols[c][i] for c in cols] for i in range(res._n)])
        except Unmodelled as u:
            return rel.SideResult(unmodelled=str(u))
        except Exception as e:
            return rel.SideResult(exc=f"{type(e).__name__}: {str(e)[:200]}")

    def real(self, frames):
        if self.inmap:
            frames = apply_inmap_real(self.inmap, frames)
        try:
            f = frames[self.table]
            with warnings.catch_warnings():
                warnings.simplefilter("ignore")
                if self.backend == "pandas":
                    return rel._frame_to_rows(self.rm.transform(f.copy())), None
                import polars as pl

                res = self.rm.transform(pl.from_pandas(f))
                return (list(res.columns), [[rel._py(v) for v in r] for r in res.rows()]), None
        except BaseException as e:
            if isinstance(e, (KeyboardInterrupt, SystemExit)):
                raise
            return None, f"{type(e).__name__}: {str(e)[:200]}"

    def describe(self):
        return f"{self.backend}: ({self.rm_src}).transform({self.table})"


def build_ops_any(src):
    with warnings.catch_warnings():
        warnings.simplefilter("ignore")
        return eval(src, ns())


class PandasSeqSide(Side):
    """sequential application: pipeline i+1 is evaluated with pipeline i's materialised result bound to its table `feed` (C07)"""

    def __init__(self, stages):
        self.stages = [tuple(s) for s in stages]  # (src, feed_table or None)
        self.name = "pandas sequential"

    def prepare(self):
        self.ops = [(build_ops(src), feed) for src, feed in self.stages]

    def sym(self, tabs, nrows):
        model = load.sym_pandas_model()
        try:
            frames = {t: rel.sym_frame(cols, nrows[t]) for t, cols in tabs.items()}
            cur = None
            for ops, feed in self.ops:
                dm = dict(frames)
                if feed is not None:
                    dm[feed] = cur
                with warnings.catch_warnings():
                    warnings.simplefilter("ignore")
                    cur = model.eval(ops, data_map=dm)
            cols = list(cur.columns)
            return rel.SideResult(cols, [[cur._cols[c][i] for c in cols] for i in range(cur._n)], ordered=False)
        except Unmodelled as u:
            return rel.SideResult(unmodelled=str(u))
        except Exception as e:
            return rel.SideResult(exc=f"{type(e).__name__}: {str(e)[:200]}")

    def real(self, frames):
        try:
            cur = None
            for ops, feed in self.ops:
                dm = {k: v.copy() for k, v in frames.items()}
                if feed is not None:
                    dm[feed] = cur
                with warnings.catch_warnings():
                    warnings.simplefilter("ignore")
                    cur = ops.eval(dm)
            return rel._frame_to_rows(cur), None
        except Exception as e:
            return None, f"{type(e).__name__}: {str(e)[:200]}"

    def describe(self):
        return "pandas sequential: " + " ; then ".join(f"{src} (fed as {feed})" if feed else src for src, feed in self.stages)


class PandasStepsSide(Side):
    """the UNSIMPLIFIED meaning of a chain: each step is built on a fresh TableDescription of the previous step's materialised result and
    evaluated on it (C06)."""

    def __init__(self, base, steps, base_table):
        self.base, self.steps, self.base_table = base, list(steps), base_table
        self.name = "pandas step-by-step"

    def prepare(self):
        # build every step on a description of the previous result's columns (column bookkeeping only; rejects are the caller's business)
        cols = list(build_ops(self.base).column_names)
        self.step_ops = []
        for i, s in enumerate(self.steps):
            tn = self.base_table if i == 0 else f"step_{i}"
            ops = build_ops(f"TableDescription(table_name={tn!r}, column_names={cols!r})" + s)
            self.step_ops.append((tn, ops))
            cols = list(ops.column_names)

    def sym(self, tabs, nrows):
        model = load.sym_pandas_model()
        try:
            frames = {t: rel.sym_frame(cols, nrows[t]) for t, cols in tabs.items()}
            cur = None
            for tn, ops in self.step_ops:
                dm = dict(frames)
                if cur is not None:
                    dm[tn] = cur
                with warnings.catch_warnings():
                    warnings.simplefilter("ignore")
                    cur = model.eval(ops, data_map=dm)
            cols = list(cur.columns)
            return rel.SideResult(cols, [[cur._cols[c][i] for c in cols] for i in range(cur._n)], ordered=False)
        except Unmodelled as u:
            return rel.SideResult(unmodelled=str(u))
        except Exception as e:
            return rel.SideResult(exc=f"{type(e).__name__}: {str(e)[:200]}")

    def real(self, frames):
        try:
            cur = None
            for tn, ops in self.step_ops:
                dm = {k: v.copy() for k, v in frames.items()}
                if cur is not None:
                    dm[tn] = cur
                with warnings.catch_warnings():
                    warnings.simplefilter("ignore")
                    cur = ops.eval(dm)
            return rel._frame_to_rows(cur), None
        except Exception as e:
            return None, f"{type(e).__name__}: {str(e)[:200]}"

    def describe(self):
        return "pandas step-by-step: " + self.base + " | " + " | ".join(self.steps)


class SQLSide(Side):
    def __init__(self, src, dialect="sqlite", options=None, allow_extend_merges=None, inmap=None, outmap=None):
        self.src, self.dialect, self.options, self.aem = src, dialect, options, allow_extend_merges
        self.name = dialect
        self.inmap, self.outmap = inmap, outmap

    def prepare(self):
        self.ops = build_ops(self.src)
        self.sql, self.sql_exc, self.sql_exc_site = None, None, None
        try:
            self.sql = to_sql(self.ops, self.dialect, self.options, self.aem)
        except Exception as e:  # the pipeline was accepted by the builder but the dialect cannot translate it
            self.sql_exc = f"{type(e).__name__}: {str(e)[:200]}"
            tb = traceback.extract_tb(e.__traceback__)
            self.sql_exc_site = tb[-1].name if tb else None
        self.full_join = self.dialect == "sqlite" and _has_full_join(self.ops)

    def sym(self, tabs, nrows):
        from vf.sym import sqlsym

        if self.sql_exc is not None:
            if self.sql_exc_site == "_emit_full_join_as_complex" and "sqlite_full_join_diffkey_unsupported" in pdshim.KF_ON:
                raise forksym.KnownFindingPath("sqlite_full_join_diffkey_unsupported")
            return rel.SideResult(exc="to_sql: " + self.sql_exc)
        if self.inmap:
            tabs, nrows = apply_inmap(self.inmap, tabs, nrows)
        sqlsym.FULL_JOIN_EMULATION = self.full_join
        try:
            r = rel.run_sql(self.sql, tabs, self.dialect)
        finally:
            sqlsym.FULL_JOIN_EMULATION = False
        return apply_outmap(self.outmap, r)

    def real(self, frames):
        if self.sql_exc is not None:
            return None, "to_sql: " + self.sql_exc
        if self.inmap:
            frames = apply_inmap_real(self.inmap, frames)
        if self.dialect == "sqlite":
            r, e = rel.real_sqlite(self.sql, frames)
        else:
            from vf.sym import pgstandin

            r, e = pgstandin.run(self.sql, frames)
        return apply_outmap_real(self.outmap, r), e

    def describe(self):
        return f"{self.dialect} sql of: " + self.src + (f" options={self.options}" if self.options else "")


class RawSQLSide(Side):
    """hand-written reference SQL (e.g. a native join) under the given dialect"""

    def __init__(self, sql, dialect="sqlite"):
        self.sql, self.dialect = sql, dialect
        self.name = "reference-sql"

    def sym(self, tabs, nrows):
        return rel.run_sql(self.sql, tabs, self.dialect)

    def real(self, frames):
        return rel.real_sqlite(self.sql, frames)

    def describe(self):
        return "reference sql: " + self.sql


class FnSide(Side):
    """a reference semantics given as 'module:function'(tabs, nrows, *args) -> SideResult, evaluated symbolically; on replay the same
    function is evaluated on constant cells (so the prediction is the reference itself)"""

    def __init__(self, fn_path, args=(), label="refsem"):
        self.fn_path, self.args = fn_path, tuple(args)
        self.name = label

    def prepare(self):
        self.fn = forksym._resolve(self.fn_path)

    def sym(self, tabs, nrows):
        try:
            return self.fn(tabs, nrows, *self.args)
        except Unmodelled as u:
            return rel.SideResult(unmodelled=str(u))

    def real(self, frames):
        return None, "reference"  # not an engine

    is_reference = True

    def describe(self):
        return f"reference {self.fn_path}{self.args}"


def make_side(d):
    k = d["kind"]
    if k == "pandas":
        return PandasSide(d["src"], d.get("inmap"), d.get("outmap"))
    if k == "sql":
        return SQLSide(d["src"], d.get("dialect", "sqlite"), d.get("options"), d.get("allow_extend_merges"), d.get("inmap"), d.get("outmap"))
    if k == "recmap":
        return RecordMapSide(d["rm"], d["table"], d.get("backend", "pandas"), d.get("inmap"))
    if k == "pandas_seq":
        return PandasSeqSide(d["stages"])
    if k == "pandas_steps":
        return PandasStepsSide(d["base"], d["steps"], d["base_table"])
    if k == "rawsql":
        return RawSQLSide(d["sql"], d.get("dialect", "sqlite"))
    if k == "fn":
        return FnSide(d["fn"], d.get("args", ()), d.get("label", "refsem"))
    if k == "polars":
        from vf.sym import plside

        return plside.PolarsSide(d["src"], d.get("lazy", False), d.get("inmap"), d.get("outmap"))
    raise ValueError(k)


# input / output maps (C10, C15, C18): small picklable specs
def apply_inmap(inmap, tabs, nrows):
    """input map specs per table: table (rename table), perm (row permutation), rename (columns), keep (columns), drop (omit the table),
    take_from (alt_table, [cols]): take these columns' cells from another (pseudo) table of the same height"""
    if "__fn__" in inmap:  # derive the backend's input tables from the symbolic ones by a (structure-free) function, e.g. a reference unpivot
        path, args = inmap["__fn__"]
        tabs, nrows = forksym._resolve(path)(tabs, dict(nrows), *args, symbolic=True)
    t2, n2 = {}, {}
    for t, cols in tabs.items():
        spec = inmap.get(t, {})
        if spec.get("drop"):
            continue
        nt = spec.get("table", t)
        perm = spec.get("perm")
        ren = spec.get("rename", {})
        keep = spec.get("keep")
        repl = {}
        if spec.get("take_from"):
            alt, acols = spec["take_from"]
            repl = {c: tabs[alt][c] for c in acols}
        out = {}
        for c, cells in cols.items():
            if keep is not None and c not in keep:
                continue
            cells = repl.get(c, cells)
            if perm is not None:
                cells = [cells[i] for i in perm]
            out[ren.get(c, c)] = cells
        t2[nt] = out
        n2[nt] = nrows[t]
    return t2, n2


def apply_inmap_real(inmap, frames):
    if "__fn__" in inmap:
        import pandas as pd

        path, args = inmap["__fn__"]
        lists = {t: {c: [rel._py(v) for v in f[c].tolist()] for c in f.columns} for t, f in frames.items()}
        kinds = {t: dict(getattr(f, "attrs", {}).get("kinds", {})) for t, f in frames.items()}
        lists2, _ = forksym._resolve(path)(lists, {t: f.shape[0] for t, f in frames.items()}, *args, symbolic=False)
        frames = {}
        for t, cols in lists2.items():
            frames[t] = pd.DataFrame({c: pd.Series(v, dtype=(object if any(isinstance(x, str) for x in v) else None)) for c, v in cols.items()})
            frames[t].attrs["kinds"] = kinds.get(t, {})
    out = {}
    for t, f in frames.items():
        spec = inmap.get(t, {})
        if spec.get("drop"):
            continue
        g = f
        if spec.get("take_from"):
            alt, acols = spec["take_from"]
            g = g.copy()
            for c in acols:
                g[c] = frames[alt][c].values
        if spec.get("keep") is not None:
            g = g[[c for c in g.columns if c in spec["keep"]]]
        if spec.get("replace_real"):
            g = g.copy()
            for c, vals in spec["replace_real"].items():
                g[c] = vals
        if spec.get("perm") is not None:
            g = g.iloc[list(spec["perm"]), :]
            if spec.get("reset_index", True):
                g = g.reset_index(drop=True)
        if spec.get("index") is not None:
            import pandas as pd

            g = g.copy()
            lab = list(spec["index"])
            step = (lab[1] - lab[0]) if len(lab) > 1 else 1
            if len(lab) > 1 and step != 0 and all(lab[i + 1] - lab[i] == step for i in range(len(lab) - 1)):
                g.index = pd.RangeIndex(lab[0], lab[0] + step * len(lab), step)  # what slicing / striding a frame produces
            else:
                g.index = lab
        if spec.get("rename"):
            g = g.rename(columns=spec["rename"])
        out[spec.get("table", t)] = g
    return out


def apply_outmap(outmap, r):
    if not outmap or not r.ok:
        return r
    ren = outmap.get("rename", {})
    return rel.SideResult([ren.get(c, c) for c in r.cols], r.rows, r.ordered)


def apply_outmap_real(outmap, r):
    if not outmap or r is None:
        return r
    ren = outmap.get("rename", {})
    return [ren.get(c, c) for c in r[0]], r[1]


# ----------------------------------------------------------------------------------------------------------------- assumptions
def add_assumptions(eng, specs, tabs):
    for s in specs or []:
        k = s[0]
        if k == "nonnull":  # ("nonnull", table, [cols])
            for c in s[2]:
                for x in tabs[s[1]][c]:
                    eng.assume(znot(x.null))
        elif k == "distinct":  # ("distinct", table, [cols]) : rows pairwise differ on the column tuple (total order premise)
            cols = [tabs[s[1]][c] for c in s[2]]
            n = len(cols[0]) if cols else 0
            for i in range(n):
                for j in range(i + 1, n):
                    eng.assume(zor(*[znot(C.same(col[i], col[j])) for col in cols]))
        elif k == "keyed":  # same as distinct, different intent
            cols = [tabs[s[1]][c] for c in s[2]]
            n = len(cols[0]) if cols else 0
            for i in range(n):
                for j in range(i + 1, n):
                    eng.assume(zor(*[znot(C.same(col[i], col[j])) for col in cols]))
        elif k == "range":  # ("range", table, col, lo, hi)
            for x in tabs[s[1]][s[2]]:
                eng.assume(zor(x.null, zand(C.num(x) >= s[3], C.num(x) <= s[4])))
        elif k == "nonzero":
            for x in tabs[s[1]][s[2]]:
                eng.assume(zor(x.null, C.num(x) != 0))
        else:
            raise ValueError(s)


# ----------------------------------------------------------------------------------------------------------------- the job
class TVHarness(forksym.Harness):
    def __init__(self, job):
        self.job = job
        self.A = make_side(job["A"])
        self.B = make_side(job["B"])
        self.A.prepare()
        self.B.prepare()
        self.validated = 0
        self.divergences = []
        self.kf_paths = {}
        self.both_raise = 0
        self.unmodelled = {}

    def tabs(self):
        j = self.job
        return {t: rel.sym_cells(t, cols, j["rows"][t]) for t, cols in j["schema"].items()}

    def run(self, eng):
        j = self.job
        pdshim.PATH_KF.clear()
        pdshim.MUTATIONS.clear()
        pdshim.KF_ON.clear()
        pdshim.KF_ON.update(j.get("kf_on", []))
        pdshim.ALLOW_WINDOW_TIES[0] = bool(j.get("allow_window_ties"))
        C.INF_ON[0] = bool(j.get("inf"))
        from vf.sym import sqlsym as _sq

        _sq.INT_DIV_EXACT[0] = bool(j.get("int_div_exact"))
        tabs = self.tabs()
        add_assumptions(eng, j.get("assume"), tabs)
        if C.INF_ON[0]:
            # inf mode (cell.py): +/-infinity are the two extreme values the float input cells can take
            eng.assume(C.PINF >= 1000000)
            eng.assume(C.NINF <= -1000000)
            for cols in tabs.values():
                for cs in cols.values():
                    for x in cs:
                        if x.kind == "f":
                            eng.assume(zor(x.null, zand(x.val >= C.NINF, x.val <= C.PINF)))
        if j.get("fix_input"):  # replay mode: pin every input cell to a recorded concrete value
            for t, cols in j["fix_input"].items():
                for c, vals in cols.items():
                    for x, v in zip(tabs[t][c], vals):
                        if v is None:
                            eng.assume(x.null)
                        elif isinstance(v, float) and v in (float("inf"), float("-inf")):
                            eng.assume(znot(x.null))
                            eng.assume(x.val == (C.PINF if v > 0 else C.NINF))
                        else:
                            eng.assume(znot(x.null))
                            eng.assume(x.val == C.coerce(C.lit(v), x.kind).val if x.kind in ("f", "i") and not isinstance(v, (str, bool)) else x.val == C.lit(v).val)
        a = self.A.sym(tabs, dict(j["rows"]))
        b = self.B.sym(tabs, dict(j["rows"]))
        if a.unmodelled or b.unmodelled:
            why = a.unmodelled or b.unmodelled
            self.unmodelled[why] = self.unmodelled.get(why, 0) + 1
            raise forksym.OutsideClaim("unmodelled: " + why)
        info = {"a": a, "b": b, "tabs": tabs, "kf": list(pdshim.PATH_KF)}
        for sr in (a, b):
            if sr.exc is not None and "is not keyed by" in str(sr.exc):
                # cdata's documented precondition (records keyed by record_keys): the Pandas/Polars executors test it and refuse, SQL cannot
                raise forksym.OutsideClaim("record transform on a table that is not keyed by its record keys")
            if sr.exc is not None and "incompatible column types" in str(sr.exc):
                # the executor's own type check refuses an ill-typed program (e.g. a string key joined to an integer key)
                raise forksym.OutsideClaim("ill-typed program refused by the executor's column type check")
        if (a.exc is None) != (b.exc is None):
            if j.get("b_may_raise") and b.exc is not None:
                return True, info
            info["why"] = f"{self.A.name}: {a.describe()} / {self.B.name}: {b.describe()}"
            return False, info
        if a.exc is not None:
            self.both_raise += 1
            return True, info
        cc = j.get("check_cols")
        if cc:
            for side, sr in ((self.A, a), (self.B, b)):
                if getattr(side, "is_reference", False):
                    continue
                bad = (list(sr.cols) != list(cc["cols"])) if cc.get("ordered") else (sorted(sr.cols) != sorted(cc["cols"]))
                if bad:
                    info["why"] = f"{side.name} returns columns {sr.cols}, pipeline declares {cc['cols']}" + (" (order matters)" if cc.get("ordered") else "")
                    info["colcheck"] = True
                    return False, info
            if j.get("compare") == "cols":
                return True, info
        if j.get("compare") == "rowcount":
            info["why"] = f"row counts differ: {self.A.name} {len(a.rows)} vs {self.B.name} {len(b.rows)}"
            return len(a.rows) == len(b.rows), info
        ordered = j.get("ordered", "auto")
        if ordered == "auto":
            ordered = bool(b.ordered or a.ordered)
        if getattr(a, "order_kf", False) or getattr(b, "order_kf", False):
            ordered = False  # the sequence is covered by the known finding order_rows_null_key (no LIMIT cut): the row multiset is still decided
        f, why = rel.tables_equiv(a, b, ordered=ordered, allow_kf=True)
        info["why"] = why
        info["ordered"] = ordered
        if j.get("colorder") and a.cols != b.cols:
            info["why"] = f"column order differs: {a.cols} vs {b.cols}"
            return False, info
        return f, info

    def concretize(self, model, info):
        return rel.concretize_tables(model, info["tabs"])


def _replay_concrete(h, tables, pred_a, pred_b, ordered):
    """run both real sides on concrete input; compare each with the model's prediction and with each other"""
    j = h.job
    frames = rel.real_frames(tables, j["schema"])
    out = {"input": tables}
    ra, ea = h.A.real(frames) if not getattr(h.A, "is_reference", False) else (None, "reference")
    rb, eb = h.B.real(frames) if not getattr(h.B, "is_reference", False) else (None, "reference")
    out["real_a"], out["exc_a"], out["real_b"], out["exc_b"] = ra, ea, rb, eb
    return out


def run_job(job):
    """explore one job; returns a picklable result dict"""
    t0 = time.time()
    res = {"id": job["id"], "status": "ok", "paths": 0, "discharged": 0, "cex": 0, "unknown": 0, "outside": 0, "known": 0, "errors": 0,
           "truncated": False, "branch_queries": 0, "assert_queries": 0, "solver_s": 0.0, "findings": [], "validated": 0,
           "divergences": [], "kf_used": {}, "notes": [], "unmodelled": {}}
    try:
        h = TVHarness(job)
    except Exception as e:
        res["status"] = "not_a_program"
        res["notes"].append(f"{type(e).__name__}: {str(e)[:300]}")
        return res
    ekw = dict(query_timeout_ms=job.get("timeout_ms", 5000), max_paths=job.get("max_paths", 3000), wall_budget_s=job.get("wall_s", 120),
               stop_at_first_cex=True, max_cex=job.get("max_cex", 2))
    eng = forksym.Engine(**ekw)
    nvalidate = job.get("validate", 2)
    seen_valid = [0]

    def on_result(r):
        # witness validation of discharged paths (first few): the real engines must do what the models predicted
        if r.status == "discharged" and seen_valid[0] < nvalidate and isinstance(r.info, dict):
            seen_valid[0] += 1
            try:
                m = rel.nice_model(eng.solver, r.info["tabs"])
                if m is None:
                    return
                v = _validate(h, m, r.info)
                res["validated"] += 1
                if v:
                    reals = v.pop("_reals", None)
                    res["divergences"].append(v)
                    # the models agreed on this path, an engine did something else: if the two REAL sides disagree with each other on this
                    # witness the property is violated there, whatever the models say (reported like any other confirmed counterexample)
                    if reals is not None and _validated_witness_differs(h, m, r.info, reals):
                        res["findings"].append({"why": "the real engines disagree on a validated witness (the models predicted agreement): " + json.dumps(v["sides"], default=str)[:300],
                                                "kf": [], "status": "confirmed", "input": v["input"],
                                                "engines": {"A": {"real": reals[0][0], "exc": reals[0][1]}, "B": {"real": reals[1][0], "exc": reals[1][1]}}})
            except Exception:
                res["notes"].append("validation error: " + traceback.format_exc()[-300:])

    def nice(solver, info):
        if not isinstance(info, dict) or "tabs" not in info:
            return None
        # prefer witnesses free of don't-care output cells and with exactly representable values
        extra = []
        for sr in (info.get("a"), info.get("b")):
            if sr is not None and sr.ok:
                for row in sr.rows:
                    for c in row:
                        if not z3.is_false(c.dc):
                            extra.append(znot(c.dc))
        uf = any(rel._uses_uf(c.val) for sr in (info.get("a"), info.get("b")) if sr is not None and sr.ok for row in sr.rows for c in row)
        if uf:
            # a difference that lives inside an uninterpreted function must show on the real engines: prefer non-degenerate inputs
            nd = []
            cells = [x for cols in info["tabs"].values() for cs in cols.values() for x in cs if x.kind in ("i", "f")]
            for i, x in enumerate(cells):
                nd.append(zor(x.null, C.num(x) >= 2))
                for y in cells[:i]:
                    nd.append(zor(x.null, y.null, C.real(x) != C.real(y)))
            m = rel.nice_model(solver, info["tabs"], extra + nd)
            if m is not None:
                return m
        m = rel.nice_model(solver, info["tabs"], extra) if extra else None
        return m if m is not None else rel.nice_model(solver, info["tabs"])

    eng.nice_model = nice
    results = eng.explore(h.run, on_result=on_result)
    st = eng.stats
    for k in ("paths", "discharged", "cex", "unknown", "outside", "known", "errors", "branch_queries", "assert_queries"):
        res[k] = getattr(st, k)
    res["solver_s"] = round(st.solver_s, 3)
    res["truncated"] = st.truncated
    res["unmodelled"] = h.unmodelled
    res["both_raise"] = h.both_raise
    gap = False
    for r in results:
        if r.status == "cex":
            fnd = _confirm(h, eng, r)
            res["findings"].append(fnd)
            if fnd["status"] == "model_divergence":
                gap = True
    if gap and not any(f["status"] == "confirmed" for f in res["findings"]):
        # A model could not follow the code on this program (e.g. an API outside the shim).  Do not give up: explore the structural
        # paths that the other side / reference still distinguishes and compare the REAL engines on each path's solver witness.
        eng2 = forksym.Engine(query_timeout_ms=ekw["query_timeout_ms"], max_paths=min(300, ekw["max_paths"]), wall_budget_s=min(60, ekw["wall_budget_s"] or 60),
                              stop_at_first_cex=True, max_cex=80)
        eng2.nice_model = nice
        tried = 0
        for r in eng2.explore(h.run):
            if r.status != "cex":
                continue
            tried += 1
            fnd = _confirm(h, eng2, r)
            if fnd["status"] == "confirmed":
                res["findings"].append(fnd)
                break
        res["notes"].append(f"model gap: {tried} solver witnesses replayed on the real engines")
    for r in results:
        if r.status == "cex":
            pass
        elif r.status == "error":
            res["notes"].append("harness exception: " + r.why[-400:])
        elif r.status == "known":
            res["kf_used"][r.why] = res["kf_used"].get(r.why, 0) + 1
        elif r.status == "outside":
            pass
    res["wall_s"] = round(time.time() - t0, 2)
    res["a"] = h.A.describe()
    res["b"] = h.B.describe()
    return res


def _validate(h, model, info):
    """returns None if the real engines agree with the model's predictions, else a divergence record"""
    tables = rel.concretize_tables(model, info["tabs"])
    frames = rel.real_frames(tables, h.job["schema"])
    out = []
    reals = []
    for side, sr in ((h.A, info["a"]), (h.B, info["b"])):
        if getattr(side, "is_reference", False):
            reals.append(None)
            continue
        real, exc = side.real(frames)
        reals.append((real, exc))
        pred = rel.predicted(model, sr)
        ok, detail = rel.validate_side(pred, real, exc, sr.exc, ordered=bool(sr.ordered))
        if not ok:
            out.append({"side": side.name, "detail": detail[:600]})
    if out:
        return {"input": tables, "sides": out, "_reals": reals if all(r is not None for r in reals) else None}
    return None


def _validated_witness_differs(h, model, info, reals):
    """two REAL engine sides on a witness of a path the models discharged: True only when it is safe to compare them and they really differ"""
    j = h.job
    if j.get("compare") or j.get("check_cols") or j.get("b_may_raise"):
        return False
    if any(getattr(s, "is_reference", False) or getattr(s, "dialect", "sqlite") != "sqlite" for s in (h.A, h.B)):
        return False  # references have no engine; a stand-in engine is not the dialect's engine
    for sr in (info["a"], info["b"]):
        if not sr.ok or not z3_free_of_dc(sr):
            return False  # accepted differences / known findings may be involved: only model-predicted disagreements count there
        pred = rel.predicted(model, sr)
        if pred is None or any(any(w) for w in pred[2]):
            return False
    (ra, ea), (rb, eb) = reals
    if ea is not None or eb is not None:
        return (ea is None) != (eb is None)
    return not rel.concrete_tables_match(ra[0], ra[1], rb[0], rb[1], ordered=bool(info.get("ordered")))


def _concrete_disagreement(h, model, info, reals):
    """real-vs-real (or real-vs-reference) comparison on the witness; False unless it is safe and they really differ"""
    j = h.job
    if j.get("compare") or j.get("check_cols"):
        return False
    if any(getattr(s, "dialect", "sqlite") != "sqlite" for s in (h.A, h.B)):
        return False  # a stand-in engine is not the dialect's engine: only model-predicted disagreements that reproduce are reported
    tabs = []
    for side, sr in ((h.A, info["a"]), (h.B, info["b"])):
        if getattr(side, "is_reference", False):
            pred = rel.predicted(model, sr)
            if pred is None:
                return False
            if any(any(w) for w in pred[2]):
                return False
            tabs.append((pred[0], pred[1], None))
        else:
            rr = reals.get(side.name, {})
            pred = rel.predicted(model, sr) if sr.ok else None
            if pred is not None and any(any(w) for w in pred[2]):
                return False
            if sr.ok and not z3_free_of_dc(sr):
                return False
            tabs.append((rr.get("real"), None, rr.get("exc")))
    (a, ar, ae), (b, br, be) = tabs
    # normalise: engines give ((cols, rows)), references give cols, rows
    def norm(x, xr, xe):
        if xe is not None and x is None:
            return None
        if xr is not None:
            return (x, xr)
        return x

    ta, tb = norm(a, ar, ae), norm(b, br, be)
    if (ta is None) != (tb is None):
        return not j.get("b_may_raise")
    if ta is None:
        return False
    ordered = bool(info.get("ordered"))
    return not rel.concrete_tables_match(ta[0], ta[1], tb[0], tb[1], ordered=ordered)


def z3_free_of_dc(sr):
    return all(z3.is_false(c.dc) and z3.is_false(c.kf) for row in sr.rows for c in row)


def _confirm(h, eng, r):
    """a solver counterexample: concretise, replay on the real engines, classify"""
    info = r.info
    f = {"why": info.get("why", ""), "kf": info.get("kf", []), "status": "unconfirmed"}
    try:
        # prefer a witness whose output cells carry no don't-care flags and with exactly representable values
        model = r.model
        tables = rel.concretize_tables(model, info["tabs"])
        f["input"] = tables
        frames = rel.real_frames(tables, h.job["schema"])
        a, b = info["a"], info["b"]
        sides = []
        all_ok = True
        reals = {}
        for side, sr in ((h.A, a), (h.B, b)):
            if getattr(side, "is_reference", False):
                pred = rel.predicted(model, sr)
                reals[side.name] = {"reference": pred[:2] if pred else sr.describe()}
                continue
            real, exc = side.real(frames)
            pred = rel.predicted(model, sr)
            ok, detail = rel.validate_side(pred, real, exc, sr.exc, ordered=bool(sr.ordered), col_order=bool(info.get("colcheck")))
            reals[side.name] ={"real": real, "exc": exc, "predicted": pred[:2] if pred else None, "agrees_with_model": ok}
            if not ok:
                all_ok = False
                sides.append({"side": side.name, "detail": detail[:500]})
        f["engines"] = reals
        uf_involved = any(rel._uses_uf(c.val) for sr in (a, b) if sr.ok for row in sr.rows for c in row)
        if all_ok and uf_involved and not (getattr(h.A, "is_reference", False) or getattr(h.B, "is_reference", False)):
            # the models agree with the engines only up to uninterpreted functions: report only what the real engines show
            ra, rb = reals[h.A.name], reals[h.B.name]
            differ = (ra.get("exc") is None) != (rb.get("exc") is None) or (
                ra.get("real") is not None and rb.get("real") is not None
                and not rel.concrete_tables_match(ra["real"][0], ra["real"][1], rb["real"][0], rb["real"][1], ordered=bool(info.get("ordered"))))
            f["status"] = "confirmed" if differ else "model_divergence"
            if not differ:
                f["divergence"] = [{"side": "both", "detail": "difference inside an uninterpreted function did not show on the real engines for this witness"}]
        elif all_ok:
            f["status"] = "confirmed"
        else:
            f["status"] = "model_divergence"
            f["divergence"] = sides
            # Fallback when a model could not follow the code (e.g. an API the shim does not cover): the solver's witness is still a
            # concrete input; compare what the REAL engines (or the reference) return on it.  Only used when no accepted-difference
            # cell is involved, so that a documented difference can never be reported.
            try:
                if _concrete_disagreement(h, model, info, reals):
                    f["status"] = "confirmed"
                    f["confirmed_by"] = "real engines on the solver's witness (model diverged)"
            except Exception:
                pass
    except Exception:
        f["status"] = "replay_error"
        f["error"] = traceback.format_exc()[-600:]
    return f
