"""symsql: lexer, parser and symbolic interpreter for the SQL text that data_algebra emits (route R2).

`to_sql()` of the real SQLModel runs concretely; its TEXT is parsed here and interpreted over symbolic tables (vf.sym.cell) under
SQLite semantics (dialect='sqlite', validated against the real sqlite3 on every witness) or PostgreSQL semantics
(dialect='postgresql', from the PostgreSQL documentation; cannot be validated here).
Same dense, forking style as the pandas model: row sets are concrete per path, cell values symbolic.
"""
from __future__ import annotations

import functools
import re

import z3

from vf import forksym
from vf.forksym import B, OutsideClaim, KnownFindingPath
from vf.sym import cell as C
from vf.sym import pdshim
from vf.sym.cell import Cell, Unmodelled, lit, null_cell, zor, zand, znot, FALSE, TRUE, decide


class SQLParseError(Exception):
    pass


# set by the SQL side when the pipeline being interpreted contains a FULL join rendered for SQLite (which emulates it)
FULL_JOIN_EMULATION = False

PINF = C.PINF
NINF = C.NINF
# per job: model SQL integer / integer exactly (truncation) instead of tainting it as the accepted "integer /" difference
INT_DIV_EXACT = [False]
# set during execute(): an ORDER BY met a missing sort key while the known finding order_rows_null_key is listed -- the row SEQUENCE of this result
# is then covered by that finding and the comparison must be a multiset one, whatever the other side says about its own order
ORDER_KF = [False]


def _inf_sign(c):
    if C.INF_ON[0]:
        return 0  # inf mode: +/-infinity are ordinary (extreme) values of the data, compared like any other value
    v = c.val
    if z3.is_const(v) and v.decl().kind() == z3.Z3_OP_UNINTERPRETED:
        n = v.decl().name()
        if n == "__plus_infinity__":
            return 1
        if n == "__minus_infinity__":
            return -1
    return 0


# ---------------------------------------------------------------------------------------------------------------- lexer
class _Toks(list):
    """token list; .orig maps the position of a bare word to its original spelling (bare identifiers keep their case)"""

    def __init__(self):
        list.__init__(self)
        self.orig = {}


RESERVED = {"SELECT", "FROM", "WHERE", "GROUP", "BY", "ORDER", "LIMIT", "AS", "AND", "OR", "NOT", "CASE", "WHEN", "THEN", "ELSE", "END", "IN", "IS", "JOIN", "LEFT", "RIGHT",
            "FULL", "INNER", "CROSS", "ON", "UNION", "ALL", "WITH", "OVER", "PARTITION", "DESC", "ASC", "CAST", "DISTINCT", "TABLE", "INDEX", "INTO", "VALUES", "SET", "HAVING"}


def lex(sql, dialect="sqlite"):
    out = _Toks()
    i, n = 0, len(sql)
    idq = '"'
    while i < n:
        ch = sql[i]
        if ch.isspace():
            i += 1
            continue
        if sql.startswith("--", i):
            j = sql.find("\n", i)
            i = n if j < 0 else j + 1
            continue
        if ch == idq:
            j = i + 1
            buf = []
            while True:
                if j >= n:
                    raise SQLParseError("unterminated identifier")
                if sql[j] == idq:
                    if j + 1 < n and sql[j + 1] == idq:
                        buf.append(idq)
                        j += 2
                        continue
                    break
                buf.append(sql[j])
                j += 1
            out.append(("ID", "".join(buf)))
            i = j + 1
            continue
        if ch == "'":
            j = i + 1
            buf = []
            while True:
                if j >= n:
                    raise SQLParseError("unterminated string")
                if sql[j] == "'":
                    if j + 1 < n and sql[j + 1] == "'":
                        buf.append("'")
                        j += 2
                        continue
                    break
                buf.append(sql[j])
                j += 1
            out.append(("STR", "".join(buf)))
            i = j + 1
            continue
        m = re.compile(r"(\d+\.\d*(?:[eE][-+]?\d+)?|\.\d+(?:[eE][-+]?\d+)?|\d+[eE][-+]?\d+|\d+)").match(sql, i)
        if m:
            out.append(("NUM", m.group(1)))
            i = m.end()
            continue
        m = re.compile(r"[A-Za-z_][A-Za-z_0-9]*").match(sql, i)
        if m:
            out.orig[len(out)] = m.group(0)
            out.append(("KW", m.group(0).upper()))
            i = m.end()
            continue
        for op in ("<>", "!=", ">=", "<=", "||", "::"):
            if sql.startswith(op, i):
                out.append(("OP", op))
                i += len(op)
                break
        else:
            if ch in "(),.*+-/%<>=;":
                out.append(("OP", ch))
                i += 1
            else:
                raise SQLParseError(f"unexpected character {ch!r} at {i}")
    return out


# ---------------------------------------------------------------------------------------------------------------- parser
class Parser:
    def __init__(self, toks):
        self.t = toks
        self.i = 0

    def peek(self, k=0):
        return self.t[self.i + k] if self.i + k < len(self.t) else ("EOF", "")

    def at(self, kind, val=None, k=0):
        tk = self.peek(k)
        return tk[0] == kind and (val is None or tk[1] == val)

    def eat(self, kind=None, val=None):
        tk = self.peek()
        if (kind and tk[0] != kind) or (val is not None and tk[1] != val):
            raise SQLParseError(f"expected {kind} {val} got {tk} at token {self.i}")
        self.i += 1
        return tk

    def top(self):
        q = self.query()
        if self.at("OP", ";"):
            self.eat()
        if not self.at("EOF"):
            raise SQLParseError(f"trailing tokens at {self.i}: {self.peek()}")
        return q

    def query(self):
        ctes = []
        if self.at("KW", "WITH"):
            self.eat()
            while True:
                name = self.eat("ID")[1]
                self.eat("KW", "AS")
                self.eat("OP", "(")
                q = self.select_union()
                self.eat("OP", ")")
                ctes.append((name, q))
                if self.at("OP", ","):
                    self.eat()
                    continue
                break
        return ("with", ctes, self.select_union())

    def select_union(self):
        bare = not self.at("OP", "(")
        q = self.select_or_paren()
        while self.at("KW", "UNION"):
            if bare and q[0] == "select" and (q[5] is not None or q[6] is not None):
                # SQLite and PostgreSQL reject an un-parenthesised branch that carries its own ORDER BY / LIMIT in front of UNION ALL
                raise SQLExecError("ORDER BY / LIMIT clause should come after UNION ALL not before")
            self.eat()
            self.eat("KW", "ALL")
            bare = not self.at("OP", "(")
            last = self.select_or_paren()
            if bare and last[0] == "select" and (last[5] is not None or last[6] is not None):
                # a trailing ORDER BY / LIMIT after the last un-parenthesised branch belongs to the WHOLE compound select
                order, limit = last[5], last[6]
                last = last[:5] + (None, None)
                q = ("select", [("*", None)], ("sub", ("union", q, last), "__compound__"), None, None, order, limit)
                bare = False
                continue
            q = ("union", q, last)
        return q

    def select_or_paren(self):
        if self.at("OP", "(") and self.at("KW", "SELECT", 1):
            self.eat()
            q = self.select_union()
            self.eat("OP", ")")
            return q
        return self.select()

    def select(self):
        self.eat("KW", "SELECT")
        terms = []
        while True:
            if self.at("OP", "*"):
                self.eat()
                terms.append(("*", None))
            else:
                e = self.expr()
                alias = None
                if self.at("KW", "AS"):
                    self.eat()
                    alias = self.eat("ID")[1]
                terms.append((e, alias))
            if self.at("OP", ","):
                self.eat()
                continue
            break
        src = None
        if self.at("KW", "FROM"):
            self.eat()
            src = self.source()
            # un-parenthesised join chain (the record-transform SQL: FROM ( ... ) a CROSS JOIN ( ... ) b)
            while self.at("KW") and self.peek()[1] in ("CROSS", "INNER", "LEFT", "RIGHT", "FULL", "JOIN"):
                jt = []
                while not self.at("KW", "JOIN"):
                    jt.append(self.eat("KW")[1])
                self.eat("KW", "JOIN")
                right = self.source()
                on = None
                if self.at("KW", "ON"):
                    self.eat()
                    on = self.expr()
                src = ("join", " ".join(jt), src, right, on)
        where = group = order = limit = None
        if self.at("KW", "WHERE"):
            self.eat()
            where = self.expr()
        if self.at("KW", "GROUP"):
            self.eat()
            self.eat("KW", "BY")
            group = [self.expr()]
            while self.at("OP", ","):
                self.eat()
                group.append(self.expr())
        if self.at("KW", "ORDER"):
            self.eat()
            self.eat("KW", "BY")
            order = self.order_list()
        if self.at("KW", "LIMIT"):
            self.eat()
            limit = int(self.eat("NUM")[1])
        return ("select", terms, src, where, group, order, limit)

    def order_list(self):
        order = []
        while True:
            e = self.expr()
            d = False
            if self.at("KW", "DESC"):
                self.eat()
                d = True
            elif self.at("KW", "ASC"):
                self.eat()
            order.append((e, d))
            if self.at("OP", ","):
                self.eat()
                continue
            break
        return order

    def alias(self):
        """optional source alias: a quoted identifier or a bare word that is not a keyword of the grammar"""
        if self.at("ID"):
            return self.eat("ID")[1]
        if self.at("KW") and self.peek()[1] not in RESERVED and self.peek()[1] not in ("OUTER", "NATURAL", "USING", "WINDOW"):
            pos = self.i
            self.eat()
            return getattr(self.t, "orig", {}).get(pos)
        return None

    def source(self):
        if self.at("OP", "("):
            self.eat()
            if self.at("KW", "SELECT") or (self.at("OP", "(") and self.at("KW", "SELECT", 1)):
                # "( (SELECT" is either a parenthesised UNION term or a sub-query used as the left operand of a join: try the former first
                save = self.i
                try:
                    q = self.select_union()
                    self.eat("OP", ")")
                    alias = self.alias()
                    return ("sub", q, alias)
                except SQLParseError:
                    if not (self.t[save] == ("OP", "(")):
                        raise
                    self.i = save
            left = self.source()
            jt = []
            while not self.at("KW", "JOIN"):
                jt.append(self.eat("KW")[1])
            self.eat("KW", "JOIN")
            right = self.source()
            on = None
            if self.at("KW", "ON"):
                self.eat()
                on = self.expr()
            self.eat("OP", ")")
            return ("join", " ".join(jt), left, right, on)
        name = self.eat("ID")[1]
        alias = self.alias()
        return ("table", name, alias)

    # expressions: OR < AND < NOT < comparison/IS/IN < || + - < * / % < unary < atom
    def expr(self):
        e = self.and_()
        while self.at("KW", "OR"):
            self.eat()
            e = ("or", e, self.and_())
        return e

    def and_(self):
        e = self.not_()
        while self.at("KW", "AND"):
            self.eat()
            e = ("and", e, self.not_())
        return e

    def not_(self):
        if self.at("KW", "NOT"):
            self.eat()
            return ("not", self.not_())
        return self.cmp()

    def cmp(self):
        e = self.add()
        while True:
            if self.at("OP") and self.peek()[1] in ("=", "<>", "!=", "<", ">", "<=", ">="):
                op = self.eat()[1]
                e = ("cmp", op, e, self.add())
            elif self.at("KW", "IS"):
                self.eat()
                neg = False
                if self.at("KW", "NOT"):
                    self.eat()
                    neg = True
                self.eat("KW", "NULL")
                e = ("isnull", e, neg)
            elif self.at("KW", "IN") or (self.at("KW", "NOT") and self.at("KW", "IN", 1)):
                neg = False
                if self.at("KW", "NOT"):
                    self.eat()
                    neg = True
                self.eat("KW", "IN")
                self.eat("OP", "(")
                items = []
                if not self.at("OP", ")"):
                    items.append(self.expr())
                    while self.at("OP", ","):
                        self.eat()
                        items.append(self.expr())
                self.eat("OP", ")")
                e = ("in", e, items, neg)
            else:
                return e

    def add(self):
        e = self.mul()
        while self.at("OP") and self.peek()[1] in ("+", "-", "||"):
            op = self.eat()[1]
            e = ("bin", op, e, self.mul())
        return e

    def mul(self):
        e = self.unary()
        while self.at("OP") and self.peek()[1] in ("*", "/", "%"):
            op = self.eat()[1]
            e = ("bin", op, e, self.unary())
        return e

    def unary(self):
        if self.at("OP", "-"):
            self.eat()
            return ("neg", self.unary())
        if self.at("OP", "+"):
            self.eat()
            return self.unary()
        e = self.atom()
        while self.at("OP", "::"):
            self.eat()
            e = ("cast", e, self.eat("KW")[1])
        return e

    def atom(self):
        tk = self.peek()
        if tk[0] == "NUM":
            self.eat()
            return ("num", tk[1])
        if tk[0] == "STR":
            self.eat()
            return ("str", tk[1])
        if tk == ("OP", "("):
            self.eat()
            e = self.expr()
            if self.at("OP", ","):  # row value / list literal
                items = [e]
                while self.at("OP", ","):
                    self.eat()
                    items.append(self.expr())
                self.eat("OP", ")")
                return ("list", items)
            self.eat("OP", ")")
            return e
        if tk[0] == "ID":
            self.eat()
            if self.at("OP", "."):
                self.eat()
                c = self.eat("ID")[1]
                return ("col", tk[1], c)
            return ("col", None, tk[1])
        if tk[0] == "KW":
            if tk[1] == "NULL":
                self.eat()
                return ("null",)
            if tk[1] in ("TRUE", "FALSE"):
                self.eat()
                return ("bool", tk[1] == "TRUE")
            if tk[1] == "CASE":
                self.eat()
                operand = None
                if not self.at("KW", "WHEN"):
                    operand = self.expr()
                arms = []
                els = ("null",)
                while self.at("KW", "WHEN"):
                    self.eat()
                    c = self.expr()
                    self.eat("KW", "THEN")
                    arms.append((c, self.expr()))
                if self.at("KW", "ELSE"):
                    self.eat()
                    els = self.expr()
                self.eat("KW", "END")
                return ("case", operand, arms, els)
            if tk[1] == "CAST":
                self.eat()
                self.eat("OP", "(")
                e = self.expr()
                self.eat("KW", "AS")
                ty = self.eat("KW")[1]
                while self.at("KW"):
                    ty += " " + self.eat("KW")[1]
                self.eat("OP", ")")
                return ("cast", e, ty)
            pos = self.i
            name = self.eat()[1]
            if not self.at("OP", "("):
                if name in RESERVED:
                    raise SQLExecError(f'near "{name}": syntax error')  # the engines reject a reserved word used as a bare identifier
                # an unquoted identifier: the engines fold/resolve it as a column name (SQLite: case-insensitively)
                orig = getattr(self.t, "orig", {}).get(pos, name)
                if self.at("OP", "."):
                    self.eat()
                    c = self.eat("ID")[1]
                    return ("col", orig, c)
                return ("col", None, orig)
            self.eat("OP", "(")
            args = []
            distinct = False
            if self.at("KW", "DISTINCT"):
                self.eat()
                distinct = True
            if self.at("OP", "*"):
                self.eat()
                args.append(("star",))
            elif not self.at("OP", ")"):
                args.append(self.expr())
                while self.at("OP", ","):
                    self.eat()
                    args.append(self.expr())
            self.eat("OP", ")")
            node = ("fn", name, args, distinct)
            if self.at("KW", "OVER"):
                self.eat()
                self.eat("OP", "(")
                part, order = [], []
                if self.at("KW", "PARTITION"):
                    self.eat()
                    self.eat("KW", "BY")
                    part.append(self.expr())
                    while self.at("OP", ","):
                        self.eat()
                        part.append(self.expr())
                if self.at("KW", "ORDER"):
                    self.eat()
                    self.eat("KW", "BY")
                    order = self.order_list()
                self.eat("OP", ")")
                node = ("win", node, part, order)
            return node
        raise SQLParseError(f"unexpected token {tk} at {self.i}")


def parse(sql, dialect="sqlite"):
    return Parser(lex(sql, dialect)).top()


# ---------------------------------------------------------------------------------------------------------------- interpreter
class Rel:
    def __init__(self, cols, rows, quals=None, ordered=False):
        self.cols = list(cols)
        self.rows = rows
        self.quals = list(quals) if quals is not None else [None] * len(self.cols)
        self.ordered = ordered


AGGS = {"SUM", "MAX", "MIN", "COUNT", "AVG", "MEDIAN", "STD", "VAR", "STDDEV_SAMP", "VAR_SAMP", "ANY", "ALL", "TOTAL"}


def has_agg(e):
    if not isinstance(e, tuple):
        return False
    if e[0] == "win":
        return False
    if e[0] == "fn" and e[1] in AGGS:
        return True
    for x in e[1:]:
        if isinstance(x, tuple) and has_agg(x):
            return True
        if isinstance(x, list):
            for y in x:
                if isinstance(y, tuple) and (has_agg(y) or any(isinstance(z, tuple) and has_agg(z) for z in y)):
                    return True
    return False


def truth(c: Cell):
    """z3 Bool: cell is SQL TRUE"""
    if c.kind == "b":
        v = c.val
    elif c.kind in ("i", "f"):
        v = C.num(c) != 0
    else:
        raise Unmodelled("string as SQL condition")
    return zand(znot(c.null), v)


def falsity(c: Cell):
    if c.kind == "b":
        v = znot(c.val)
    else:
        v = C.num(c) == 0
    return zand(znot(c.null), v)


class Interp:
    def __init__(self, dialect="sqlite", udfs=None):
        self.dialect = dialect
        self.udfs = udfs or {}

    # ------------------------------------------------------------ scalar expressions
    def ev(self, e, rel, row, group=None):
        k = e[0]
        if k == "num":
            s = e[1]
            return lit(float(s)) if ("." in s or "e" in s.lower()) else lit(int(s))
        if k == "str":
            return lit(e[1])
        if k == "null":
            return null_cell("f")
        if k == "bool":
            return lit(e[1])
        if k == "col":
            idx = [i for i, (c, q) in enumerate(zip(rel.cols, rel.quals)) if c == e[2] and (e[1] is None or q == e[1])]
            if len(idx) == 0:
                raise SQLExecError(f"no such column: {e[1] + '.' if e[1] else ''}{e[2]}")
            if len(idx) > 1:
                raise SQLExecError(f"ambiguous column name: {e[2]}")
            if row is None:
                return null_cell("f")
            return row[idx[0]]
        if k == "neg":
            a = self.ev(e[1], rel, row, group)
            return Cell(a.null, -C.num(a), "f" if a.kind == "f" else "i", a.dc, a.kf)
        if k == "bin":
            a, b = self.ev(e[2], rel, row, group), self.ev(e[3], rel, row, group)
            return self.binop(e[1], a, b)
        if k == "cmp":
            a, b = self.ev(e[2], rel, row, group), self.ev(e[3], rel, row, group)
            return self.cmp(e[1], a, b)
        if k == "and":
            a, b = self.ev(e[1], rel, row, group), self.ev(e[2], rel, row, group)
            dc, kf = C.taint(a, b)
            fa, fb = falsity(a), falsity(b)
            return Cell(zand(zor(a.null, b.null), znot(fa), znot(fb)), zand(truth(a), truth(b)), "b", dc, kf)
        if k == "or":
            a, b = self.ev(e[1], rel, row, group), self.ev(e[2], rel, row, group)
            dc, kf = C.taint(a, b)
            ta, tb = truth(a), truth(b)
            return Cell(zand(zor(a.null, b.null), znot(ta), znot(tb)), zor(ta, tb), "b", dc, kf)
        if k == "not":
            a = self.ev(e[1], rel, row, group)
            return Cell(a.null, falsity(a), "b", a.dc, a.kf)
        if k == "isnull":
            a = self.ev(e[1], rel, row, group)
            return Cell(FALSE, znot(a.null) if e[2] else a.null, "b", a.dc, a.kf)
        if k == "in":
            a = self.ev(e[1], rel, row, group)
            items = e[2]
            if len(items) == 1 and items[0][0] == "list":
                items = items[0][1]
            vals = [self.ev(x, rel, row, group) for x in items]
            dc, kf = C.taint(a, *vals)
            hit = zor(*[zand(znot(v.null), C.veq(a, v)) for v in vals if not z3.is_true(v.null)])
            anynull = zor(*[v.null for v in vals])
            null = zor(a.null, zand(znot(hit), anynull))
            r = Cell(null, hit, "b", dc, kf)
            if e[3]:
                r = Cell(r.null, znot(hit), "b", dc, kf)
            return r
        if k == "list":
            raise Unmodelled("row value outside IN")
        if k == "case":
            operand = self.ev(e[1], rel, row, group) if e[1] is not None else None
            res = self.ev(e[3], rel, row, group)
            for c, v in reversed(e[2]):
                cv = self.ev(c, rel, row, group)
                vv = self.ev(v, rel, row, group)
                if operand is not None:
                    t = zand(znot(operand.null), znot(cv.null), C.veq(operand, cv))
                    tdc, tkf = C.taint(operand, cv)
                else:
                    t = truth(cv)
                    tdc, tkf = cv.dc, cv.kf
                res = self._ite(t, vv, res, tdc, tkf)
            return res
        if k == "cast":
            a = self.ev(e[1], rel, row, group)
            return self.cast(a, e[2])
        if k == "fn":
            return self.fn(e, rel, row, group)
        if k == "win":
            raise Unmodelled("window function outside SELECT list")
        if k == "star":
            return lit(1)
        raise Unmodelled(f"sql expr {k}")

    def _ite(self, t, a, b, tdc=FALSE, tkf=FALSE):
        if z3.is_true(a.null) and not z3.is_true(b.null):
            k = b.kind
        elif z3.is_true(b.null) and not z3.is_true(a.null):
            k = a.kind
        elif a.kind == b.kind:
            k = a.kind
        else:
            k = C.join_kind(a, b)
        a2, b2 = C.coerce(a, k), C.coerce(b, k)
        dc = zor(tdc, z3.If(t, a.dc, b.dc) if not (z3.is_false(a.dc) and z3.is_false(b.dc)) else FALSE)
        kf = zor(tkf, z3.If(t, a.kf, b.kf) if not (z3.is_false(a.kf) and z3.is_false(b.kf)) else FALSE)
        return Cell(z3.If(t, a2.null, b2.null), z3.If(t, a2.val, b2.val), k, dc, kf)

    def binop(self, op, a, b):
        dc, kf = C.taint(a, b)
        null = zor(a.null, b.null)
        if op == "||":
            if a.kind != "s" or b.kind != "s":
                raise Unmodelled("|| on non-strings (number formatting)")
            return Cell(null, z3.Concat(a.val, b.val), "s", dc, kf)
        if a.kind == "s" or b.kind == "s":
            raise Unmodelled("arithmetic on strings")
        isint = C.is_intlike(a) and C.is_intlike(b)
        if op in ("+", "-", "*"):
            x, y = (C.num(a), C.num(b)) if isint else (C.real(a), C.real(b))
            v = x + y if op == "+" else (x - y if op == "-" else x * y)
            return Cell(null, v, "i" if isint else "f", dc, kf)
        if op == "/":
            y = C.real(b)
            if isint and INT_DIV_EXACT[0]:
                # integer / integer in SQLite and PostgreSQL: truncation toward zero.  Used where the SQL "/" does not come from the user's "/"
                # (the accepted difference) but from the translation of another operator (//): then its value matters.
                q = C.real(a) / z3.If(y == 0, z3.RealVal(1), y)
                return Cell(null, z3.If(q >= 0, z3.ToInt(q), -z3.ToInt(-q)), "i", zor(dc, y == 0), kf)
            # integer / integer: destination convention (accepted difference); x/0: NULL in SQLite, error in PG -> outside claim
            dc = zor(dc, TRUE if isint else FALSE)
            if self.dialect == "sqlite" and "division_by_zero" in pdshim.KF_ON:
                null = zor(null, y == 0)  # SQLite: division by zero is NULL (the Pandas side carries the known-finding taint for x/0, x != 0)
            else:
                dc = zor(dc, y == 0)
            return Cell(null, C.real(a) / z3.If(y == 0, z3.RealVal(1), y), "f", dc, kf)
        if op == "%":
            return Cell(null, z3.IntVal(0) if isint else z3.RealVal(0), "i" if isint else "f", TRUE, kf)
        raise Unmodelled(f"operator {op}")

    def cmp(self, op, a, b):
        dc, kf = C.taint(a, b)
        null = zor(a.null, b.null)
        if z3.is_true(a.null) or z3.is_true(b.null):
            return Cell(TRUE, FALSE, "b", dc, kf)
        for x, y, flip in ((a, b, False), (b, a, True)):
            inf = _inf_sign(y)
            if inf:
                # finite value compared with +/- infinity (IEEE specials of the data are outside every claim)
                o = {"<": ">", ">": "<", "<=": ">=", ">=": "<="}.get(op, op) if flip else op
                res = {"<": inf > 0, "<=": inf > 0, ">": inf < 0, ">=": inf < 0, "=": False, "<>": True, "!=": True}[o]
                return Cell(null, z3.BoolVal(res), "b", dc, kf)
        if op == "=":
            v = C.veq(a, b)
        elif op in ("<>", "!="):
            v = znot(C.veq(a, b))
        elif op == "<":
            v = C.lt(a, b)
        elif op == ">":
            v = C.lt(b, a)
        elif op == "<=":
            v = znot(C.lt(b, a))
        elif op == ">=":
            v = znot(C.lt(a, b))
        else:
            raise Unmodelled(op)
        return Cell(null, v, "b", dc, kf)

    def cast(self, a, ty):
        ty = ty.upper()
        if ty in ("INT64", "BIGINT", "INTEGER", "INT"):
            if a.kind == "f":
                v = a.val
                return Cell(a.null, z3.If(v >= 0, z3.ToInt(v), -z3.ToInt(-v)), "i", a.dc, a.kf)
            if a.kind in ("i", "b"):
                return Cell(a.null, C.num(a), "i", a.dc, a.kf)
            raise Unmodelled("CAST string AS int")
        if ty in ("FLOAT64", "REAL", "DOUBLE PRECISION", "FLOAT", "DOUBLE"):
            if a.kind == "s":
                sv = z3.simplify(a.val)
                if z3.is_string_value(sv) and sv.as_string().lower() in ("+infinity", "infinity", "-infinity"):
                    return Cell(FALSE, PINF if not sv.as_string().startswith("-") else NINF, "f")
                raise Unmodelled("CAST string AS float")
            return C.coerce(a, "f")
        if ty in ("VARCHAR", "TEXT", "STRING", "CHAR") and a.kind == "s":
            return a  # a string stays itself (number -> text formatting is outside the model)
        raise Unmodelled(f"CAST AS {ty}")

    # ------------------------------------------------------------ functions
    def fn(self, e, rel, row, group):
        name, args, distinct = e[1], e[2], e[3]
        if name in AGGS:
            if group is None:
                raise SQLExecError(f"misuse of aggregate function {name}()")
            if name == "COUNT" and args and args[0] == ("star",):
                return Cell(FALSE, z3.IntVal(len(group)), "i")
            cells = [self.ev(args[0], rel, r, None) for r in group]
            return self.aggregate(name, cells, distinct)
        vals = [self.ev(a, rel, row, group) for a in args]
        return self.scalar_fn(name, vals)

    def aggregate(self, name, cells, distinct=False):
        dc, kf = C.taint(*cells) if cells else (FALSE, FALSE)
        allnull = zand(*[c.null for c in cells]) if cells else TRUE
        if name == "COUNT":
            if distinct:
                r = pdshim._agg(cells, "nunique")
                return Cell(FALSE, r.val, "i", dc, kf)
            return Cell(FALSE, z3.Sum([z3.If(c.null, 0, 1) for c in cells]) if cells else z3.IntVal(0), "i", dc, kf)
        if name == "SUM":
            if cells and all(c.kind == "s" for c in cells):
                raise Unmodelled("SUM of strings")
            k = "f" if any(c.kind == "f" for c in cells) else "i"
            zero = z3.RealVal(0) if k == "f" else z3.IntVal(0)
            v = z3.Sum([z3.If(c.null, zero, C.real(c) if k == "f" else C.num(c)) for c in cells]) if cells else zero
            # accepted difference: SUM over no non-null value is NULL (pandas: 0)
            return Cell(allnull, v, k, zor(dc, allnull), kf)
        if name == "AVG":
            r = pdshim._agg(cells, "mean")
            return Cell(r.null, r.val, "f", dc, kf)
        if name in ("MAX", "MIN"):
            r = pdshim._agg(cells, name.lower())
            return Cell(r.null, r.val, r.kind, dc, kf)
        if "AGG:" + name in self.udfs:
            return self.udfs["AGG:" + name](cells)  # SQLite: the repository's own aggregate classes (median / var / std)
        if name in ("VAR_SAMP", "VARIANCE") and self.dialect == "postgresql":
            r = pdshim._agg(cells, "var")  # sample variance, NULL below two values (PostgreSQL documentation)
            return Cell(r.null, r.val, "f", dc, kf)
        raise Unmodelled(f"aggregate {name}")

    def scalar_fn(self, name, vals):
        if name == "COALESCE":
            res = vals[-1]
            for c in reversed(vals[:-1]):
                res = self._ite(znot(c.null), c, res)
            return res
        if name == "NULLIF":
            a, b = vals
            eq = zand(znot(a.null), znot(b.null), C.veq(a, b))
            dc, kf = C.taint(a, b)
            return Cell(zor(a.null, eq), a.val, a.kind, dc, kf)
        if name in self.udfs:
            return self.udfs[name](*vals)
        if name in ("SUBSTR", "SUBSTRING") and len(vals) == 3:
            x, p, n = vals
            pv, nv = z3.simplify(C.num(p)), z3.simplify(C.num(n))
            if x.kind != "s" or not (z3.is_int_value(pv) and z3.is_int_value(nv)) or pv.as_long() < 1 or (nv.as_long() < 0 and self.dialect != "sqlite"):
                raise Unmodelled("SUBSTR form")  # 1-based start >= 1 only; a negative length only for SQLite (zero / negative positions differ by engine)
            dc, kf = C.taint(x, p, n)
            if nv.as_long() < 0:
                # SQLite: a negative length returns the |n| characters BEFORE the start position
                lo = max(0, pv.as_long() - 1 + nv.as_long())
                return Cell(x.null, z3.SubString(x.val, z3.IntVal(lo), z3.IntVal(pv.as_long() - 1 - lo)), "s", dc, kf)
            return Cell(x.null, z3.SubString(x.val, z3.IntVal(pv.as_long() - 1), z3.IntVal(nv.as_long())), "s", dc, kf)
        if name in ("POWER", "POW"):
            return pdshim._power(*vals)
        if name in ("ABS",):
            return pdshim._abs(vals[0])
        if name == "SIGN":
            return pdshim._sign(vals[0])
        if name == "FLOOR":
            return pdshim._floor(vals[0])
        if name in ("CEILING", "CEIL"):
            return pdshim._ceil(vals[0])
        if name == "ROUND":
            a = vals[0]
            if a.kind != "f":
                return Cell(a.null, C.real(a), "f", a.dc, a.kf)
            # SQLite / PostgreSQL(numeric): round half away from zero; PG double precision: half to even (platform)
            x = a.val
            ax = z3.If(x >= 0, x, -x)
            r = z3.ToInt(ax + z3.RealVal(1) / 2)
            return Cell(a.null, z3.ToReal(z3.If(x >= 0, r, -r)), "f", a.dc, a.kf)
        if name in ("EXP", "LOG", "LN", "LOG10", "SQRT", "SIN", "COS", "TAN", "SINH", "COSH", "TANH", "ASIN", "ACOS", "ATAN",
                    "ARCSIN", "ARCCOS", "ARCTAN", "ARCSINH", "ARCCOSH", "ARCTANH", "EXPM1", "LOG1P", "ASINH", "ACOSH", "ATANH"):
            alias = {"LN": "log", "ASIN": "arcsin", "ACOS": "arccos", "ATAN": "arctan", "ASINH": "arcsinh", "ACOSH": "arccosh",
                     "ATANH": "arctanh"}
            if name == "LOG" and self.dialect == "postgresql":
                return pdshim._uninterp("log10")(*vals)
            return pdshim._uninterp(alias.get(name, name.lower()))(*vals)
        raise Unmodelled(f"SQL function {name}")

    def check_names(self, e, rel, extra=()):
        """the engine resolves every column reference when it prepares the statement, also when no row is ever evaluated"""
        if isinstance(e, list):
            for x in e:
                self.check_names(x, rel, extra)
            return
        if not isinstance(e, tuple):
            return
        if e and e[0] == "col":
            if e[1] is None and e[2] in extra:
                return
            idx = [i for i, (c, q) in enumerate(zip(rel.cols, rel.quals)) if c == e[2] and (e[1] is None or q == e[1])]
            if len(idx) == 0:
                raise SQLExecError(f"no such column: {e[1] + '.' if e[1] else ''}{e[2]}")
            if len(idx) > 1:
                raise SQLExecError(f"ambiguous column name: {e[2]}")
            return
        for x in (e[1:] if (e and isinstance(e[0], str)) else e):
            if isinstance(x, (tuple, list)):
                self.check_names(x, rel, extra)

    # ------------------------------------------------------------ relations
    def run(self, q, env):
        if q[0] == "with":
            env = dict(env)
            for name, sub in q[1]:
                env[name] = self.run(sub, env)
            return self.run(q[2], env)
        if q[0] == "union":
            a, b = self.run(q[1], env), self.run(q[2], env)
            if len(a.cols) != len(b.cols):
                raise SQLExecError("SELECTs to the left and right of UNION ALL do not have the same number of result columns")
            return Rel(a.cols, a.rows + b.rows)
        _, terms, src, where, group, order, limit = q
        rel = self.source(src, env) if src is not None else Rel([], [[]])
        rows = rel.rows
        self.check_names([e for e, _ in terms if e != "*"], rel)
        self.check_names(where, rel)
        self.check_names(group, rel)
        self.check_names([e for e, _ in (order or [])], rel, extra=[a for _, a in terms if a])
        if where is not None:
            kept = []
            for r in rows:
                c = self.ev(where, rel, r)
                if decide(truth(c), (c,)):
                    kept.append(r)
            rows = kept
        outcols, exprs = [], []
        for e, alias in terms:
            if e == "*":
                for i, c in enumerate(rel.cols):
                    outcols.append(c)
                    exprs.append(("col", rel.quals[i], c))
            else:
                outcols.append(alias if alias else (e[2] if e[0] == "col" else "?column?"))
                exprs.append(e)
        agg = group is not None or any(has_agg(e) for e in exprs)
        if agg:
            groups, reps = [], []
            if group is None:
                groups = [rows]
            else:
                for r in rows:
                    key = [self.ev(g, rel, r) for g in group]
                    if FULL_JOIN_EMULATION and not any(has_agg(e) for e in exprs) and "sqlite_full_join_null_keys" in pdshim.KF_ON:
                        # key-only GROUP BY of SQLite's FULL JOIN emulation: null keys collapse into one group (recorded finding)
                        if any(decide(kc.null, (kc,)) for kc in key):
                            raise KnownFindingPath("sqlite_full_join_null_keys")
                    for gi, rep in enumerate(reps):
                        if all(C.same_py(a, b) for a, b in zip(key, rep)):
                            groups[gi].append(r)
                            break
                    else:
                        reps.append(key)
                        groups.append([r])
            out = [[self.ev(e, rel, g[0] if g else None, g) for e in exprs] for g in groups]
            srows = [g[0] if g else None for g in groups]
        else:
            if any(self._has_win(e) for e in exprs):
                out = self._eval_windowed(exprs, rel, rows)
            else:
                out = [[self.ev(e, rel, r) for e in exprs] for r in rows]
            srows = rows
        ordered = False
        if order:
            # ORDER BY may refer to output aliases or to source columns
            orel = Rel(outcols + rel.cols, None, [None] * len(outcols) + rel.quals)
            keyed = []
            for o, s in zip(out, srows):
                full = o + (s if s is not None else [null_cell("f")] * len(rel.cols))
                keys = []
                for e, d in order:
                    if e[0] == "col" and e[1] is None and e[2] in outcols:
                        keys.append(o[outcols.index(e[2])])
                    else:
                        keys.append(self.ev(e, orel, full))
                keyed.append((keys, o))
            desc = [d for _, d in order]
            null_key = False
            for ks, _ in keyed:
                for kc in ks:
                    if not z3.is_false(kc.null) and decide(kc.null, (kc,)):
                        if "order_rows_null_key" in pdshim.KF_ON:
                            # recorded finding: the executors disagree on where a missing sort key goes.  That changes the row SEQUENCE, and the
                            # row SET only if a LIMIT cuts the table: close the path in that case only, otherwise compare as a multiset.
                            if limit is not None and limit < len(keyed):
                                raise KnownFindingPath("order_rows_null_key")
                            null_key = True
                            ORDER_KF[0] = True
            ties = []

            def cmpo(i, j):
                r0 = self._cmp_keys(keyed[i][0], keyed[j][0], desc)
                if r0 == 0 and i != j:
                    ties.append((i, j))
                return r0

            idx = sorted(range(len(keyed)), key=functools.cmp_to_key(cmpo))
            out = [keyed[i][1] for i in idx]
            ordered = not ties and not null_key  # tied rows have no defined relative order: compared as a multiset
            if limit is not None and ties and limit < len(out):
                # which of the tied rows survive a LIMIT is not determined by the property's statement
                pos = {r: k for k, r in enumerate(idx)}
                if any((pos[i] < limit) != (pos[j] < limit) for i, j in ties):
                    raise OutsideClaim("LIMIT cuts through rows tied in the ORDER BY")
        if limit is not None:
            out = out[:limit]
        return Rel(outcols, out, ordered=ordered)

    def _cmp_keys(self, ka, kb, desc):
        """ORDER BY comparison: SQLite NULLs smallest; PostgreSQL NULLs largest"""
        nulls_small = self.dialect == "sqlite"
        for x, y, d in zip(ka, kb, desc):
            xn, yn = decide(x.null, (x,)), decide(y.null, (y,))
            if xn and yn:
                continue
            if xn or yn:
                r = (-1 if xn else 1) if nulls_small else (1 if xn else -1)
            else:
                if decide(C.veq(x, y), (x, y)):
                    continue
                r = -1 if decide(C.lt(x, y), (x, y)) else 1
            return -r if d else r
        return 0

    def _has_win(self, e):
        if not isinstance(e, tuple):
            return False
        if e[0] == "win":
            return True
        for x in e[1:]:
            if isinstance(x, tuple) and self._has_win(x):
                return True
            if isinstance(x, list):
                for y in x:
                    if isinstance(y, tuple) and (self._has_win(y) or any(isinstance(z, tuple) and self._has_win(z) for z in y)):
                        return True
        return False

    def _eval_windowed(self, exprs, rel, rows):
        n = len(rows)
        out = [[None] * len(exprs) for _ in range(n)]
        for j, e in enumerate(exprs):
            if not self._has_win(e):
                for i, r in enumerate(rows):
                    out[i][j] = self.ev(e, rel, r)
                continue
            if e[0] != "win":
                raise Unmodelled("window function nested in an expression")
            fnode, part, order = e[1], e[2], e[3]
            # partitions
            parts, reps = [], []
            for i, r in enumerate(rows):
                key = [self.ev(p, rel, r) for p in part]
                for gi, rep in enumerate(reps):
                    if all(C.same_py(a, b) for a, b in zip(key, rep)):
                        parts[gi].append(i)
                        break
                else:
                    reps.append(key)
                    parts.append([i])
            desc = [d for _, d in order]
            for p in parts:
                keys = {i: [self.ev(oe, rel, rows[i]) for oe, _ in order] for i in p}
                if order:
                    for i in p:
                        if any(decide(kc.null, (kc,)) for kc in keys[i]):
                            raise OutsideClaim("window order key is null")

                    def wcmp(a, b):
                        r0 = self._cmp_keys(keys[a], keys[b], desc)
                        if r0 == 0 and a != b and not pdshim.ALLOW_WINDOW_TIES[0]:
                            # the properties (C01/C18/C27) speak about total window orders only
                            raise OutsideClaim("window order is not total (tie)")
                        return r0

                    sp = sorted(p, key=functools.cmp_to_key(wcmp))
                else:
                    sp = list(p)
                for pos, i in enumerate(sp):
                    if order:
                        # default frame RANGE UNBOUNDED PRECEDING .. CURRENT ROW: includes the current row's peers
                        last = pos
                        while last + 1 < len(sp) and self._cmp_keys(keys[sp[last + 1]], keys[i], desc) == 0:
                            last += 1
                        if (last > pos or any(decide(kc.null, (kc,)) for kc in keys[i])) and not pdshim.ALLOW_WINDOW_TIES[0]:
                            # the properties (C01/C18/C27) speak about total window orders with non-null keys only
                            raise OutsideClaim("window order is not total (tie or null order key)")
                        frame = sp[: last + 1]
                    else:
                        frame = sp
                    out[i][j] = self._window_value(fnode, rel, rows, sp, pos, frame)
        return out

    def _window_value(self, fnode, rel, rows, sp, pos, frame):
        name, args = fnode[1], fnode[2]
        if name == "ROW_NUMBER":
            return Cell(FALSE, z3.IntVal(pos + 1), "i")
        if name in ("LAG", "LEAD"):
            k = 1
            if len(args) > 1:
                if args[1][0] != "num":
                    raise Unmodelled("LAG offset")
                k = int(args[1][1])
            j = pos - k if name == "LAG" else pos + k
            if 0 <= j < len(sp):
                return self.ev(args[0], rel, rows[sp[j]])
            return null_cell(self.ev(args[0], rel, rows[sp[pos]]).kind)
        if name in AGGS:
            if name == "COUNT" and args and args[0] == ("star",):
                return Cell(FALSE, z3.IntVal(len(frame)), "i")
            if not args:
                if name == "COUNT" and self.dialect == "sqlite":
                    return Cell(FALSE, z3.IntVal(len(frame)), "i")  # SQLite accepts COUNT() as COUNT(*)
                raise SQLExecError(f"wrong number of arguments to function {name}()")
            cells = [self.ev(args[0], rel, rows[i]) for i in frame]
            return self.aggregate(name, cells, fnode[3])
        raise Unmodelled(f"window function {name}")

    def source(self, src, env):
        if src[0] == "table":
            if src[1] not in env:
                raise SQLExecError(f"no such table: {src[1]}")
            r = env[src[1]]
            q = src[2] or src[1]
            return Rel(r.cols, r.rows, [q] * len(r.cols))
        if src[0] == "sub":
            r = self.run(src[1], env)
            return Rel(r.cols, r.rows, [src[2]] * len(r.cols))
        if src[0] == "join":
            l, r = self.source(src[2], env), self.source(src[3], env)
            jt = src[1].replace("OUTER", "").strip()
            rel = Rel(l.cols + r.cols, None, l.quals + r.quals)
            self.check_names(src[4], rel)
            rows = []
            rmatched = set()
            for lr in l.rows:
                m = False
                for j, rr in enumerate(r.rows):
                    row = lr + rr
                    ok = True
                    if src[4] is not None and jt != "CROSS":
                        c = self.ev(src[4], rel, row)
                        ok = decide(truth(c), (c,))
                    if ok:
                        rows.append(row)
                        m = True
                        rmatched.add(j)
                if (not m) and jt in ("LEFT", "FULL"):
                    rows.append(lr + [null_cell(self._colkind(r, k)) for k in range(len(r.cols))])
            if jt in ("RIGHT", "FULL"):
                rows += [[null_cell(self._colkind(l, k)) for k in range(len(l.cols))] + rr for j, rr in enumerate(r.rows) if j not in rmatched]
            if jt not in ("INNER", "LEFT", "RIGHT", "FULL", "CROSS", ""):
                raise Unmodelled(f"join type {jt}")
            rel.rows = rows
            return rel
        raise Unmodelled(src[0])

    @staticmethod
    def _colkind(rel, k):
        for r in rel.rows:
            return r[k].kind
        return "f"


class SQLExecError(Exception):
    """the database engine would reject / fail this query (no such column, ambiguous name, ...)"""


def execute(sql, tables, dialect="sqlite", udfs=None):
    """tables: {name: (cols, rows)} with rows = list of lists of Cells"""
    ast = parse(sql, dialect)
    env = {k: Rel(cols, [list(r) for r in rows]) for k, (cols, rows) in tables.items()}
    ORDER_KF[0] = False
    return Interp(dialect, udfs).run(ast, env)
