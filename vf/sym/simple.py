"""Boilerplate shared by the checks built on translation-validation jobs."""
from __future__ import annotations

import json

from vf.common import Report
from vf.sym import runner, tv


def run_tv_check(prop, tier, build_jobs, explanation, extra_cov=None, assumptions=(), level="translation_validation", min_conclusive=0.5,
                 post=None):
    rep = Report(prop, level)
    kf_on, entries = runner.kf_taints(prop)
    jobs = build_jobs(tier, rep.seed, sorted(kf_on))
    results = runner.run_jobs(jobs)
    cov = runner.fold(rep, prop, jobs, results, explanation, extra_cov, min_conclusive=min_conclusive)
    cov["known_finding_taints_enabled"] = sorted(kf_on)
    if post:
        post(rep, jobs, results)
    rep.assumptions = list(assumptions)
    runner.replay_known(rep, prop, entries)
    return rep.finish()


def replay_tv(prop, path):
    d = json.load(open(path))
    job = d["job"]
    w = {"A": job["A"], "B": job["B"], "schema": job["schema"], "input": d["input"], "ordered": bool(job.get("ordered") is True)}
    A = tv.make_side(job["A"])
    B = tv.make_side(job["B"])
    if getattr(A, "is_reference", False) or getattr(B, "is_reference", False) or job.get("compare") or job.get("check_cols"):
        # reference / structural oracle: re-decide the single concrete input with the solver-backed harness
        j = dict(job)
        j["rows"] = {t: len(next(iter(cols.values()))) if cols else 0 for t, cols in d["input"].items()}
        j["fix_input"] = d["input"]
        r = tv.run_job(j)
        still = any(f["status"] == "confirmed" for f in r.get("findings", []))
    else:
        still = runner.replay_witness(w)
    print("replay", job.get("id"), "input", json.dumps(d["input"], default=str)[:300], "-> still fails:", still)
    if still:
        print(f"VIOLATION property={prop} replay={path}")
        return 1
    return 0


def tv_job(jid, schema, rows, A, B, kf_on, tier, **kw):
    j = {"id": jid, "schema": schema, "rows": rows, "A": A, "B": B, "ordered": "auto", "kf_on": list(kf_on),
         "validate": 1 if tier == "quick" else 2, "max_paths": 1500 if tier == "quick" else 8000, "wall_s": 40 if tier == "quick" else 240}
    j.update(kw)
    return j
