"""Load PRIVATE copies of repo modules with their C-library imports replaced by the symbolic models.

No repo hook is needed: `pandas_base.py` takes the pandas module as a constructor argument and imports numpy at module level; the copy
is executed with sys.modules['numpy'] pointing at symnp, and its `data_algebra` global is a proxy whose `.util` is a shim (type
guessing over symbolic vectors).  The code that runs is the repository's current source text, read at check time.
"""
from __future__ import annotations

import importlib.util
import os
import sys
import types

from vf.sym import pdshim
from vf.sym.cell import Cell, Unmodelled

_CACHE = {}


def repo_root():
    import data_algebra

    return os.path.dirname(os.path.dirname(os.path.abspath(data_algebra.__file__)))


_KIND_TYPE = {"i": int, "f": float, "b": bool, "s": str}


def _guess_carried_scalar_type(col):
    if isinstance(col, Cell):
        return type(None) if str(col.null) == "True" else _KIND_TYPE[col.kind]
    if col is None or isinstance(col, (str, int, float, bool)):
        return type(col)
    if isinstance(col, pdshim._Vec):
        if len(col) < 1:
            return type(None)
        k = col.kind
        if k == "o":
            raise Unmodelled("mixed-type column")
        # an all-null column has no carried type
        import z3

        if all(z3.is_true(c.null) for c in col.cells):
            return type(None)
        return _KIND_TYPE[k]
    if isinstance(col, (list, tuple)):
        for v in col:
            if v is not None:
                return type(v)
        return type(None)
    raise Unmodelled(f"guess type of {type(col)}")


def _make_util_shim(real_util):
    m = types.ModuleType("data_algebra_util_shim")
    for k, v in vars(real_util).items():
        if not k.startswith("__"):
            setattr(m, k, v)
    m.guess_carried_scalar_type = _guess_carried_scalar_type

    def guess_column_types(d, *, columns=None):
        if (d.shape[0] <= 0) or (d.shape[1] <= 0):
            return dict()
        columns = list(d.columns) if columns is None else list(columns)
        return {c: _guess_carried_scalar_type(d[c]) for c in columns}

    m.guess_column_types = guess_column_types

    def check_columns_appear_compatible(d_left, d_right, *, columns=None):
        if columns is None:
            columns = [c for c in d_left.columns]
            assert set(d_left.columns) == set(d_right.columns)
        else:
            columns = [c for c in columns]
        lt, rt = guess_column_types(d_left, columns=columns), guess_column_types(d_right, columns=columns)
        if not lt or not rt:
            return None
        mism = {c: (lt[c], rt[c]) for c in columns if not real_util.compatible_types([lt[c], rt[c]])}
        return mism or None

    m.check_columns_appear_compatible = check_columns_appear_compatible
    return m


class _PkgProxy(types.ModuleType):
    """stands for the `data_algebra` package inside a private module copy: `.util` is the shim, everything else is real"""

    def __init__(self, real, overrides):
        types.ModuleType.__init__(self, "data_algebra_proxy")
        self.__dict__["_real"] = real
        self.__dict__["_over"] = overrides

    def __getattr__(self, k):
        if k in self.__dict__["_over"]:
            return self.__dict__["_over"][k]
        return getattr(self.__dict__["_real"], k)


def private_copy(modname, swaps, pkg_overrides=None, tag="sym"):
    """exec a fresh copy of data_algebra.<modname> from its current source with sys.modules[name]=stand-in during import"""
    key = (modname, tag)
    if key in _CACHE:
        return _CACHE[key]
    import data_algebra

    real = importlib.import_module("data_algebra." + modname)
    spec = importlib.util.spec_from_file_location(f"_vf_private_{modname}_{tag}", real.__file__)
    m = importlib.util.module_from_spec(spec)
    saved = {k: sys.modules.get(k) for k in swaps}
    try:
        for k, v in swaps.items():
            sys.modules[k] = v
        spec.loader.exec_module(m)
    finally:
        for k, v in saved.items():
            if v is None:
                sys.modules.pop(k, None)
            else:
                sys.modules[k] = v
    if pkg_overrides:
        m.data_algebra = _PkgProxy(data_algebra, pkg_overrides)
    _CACHE[key] = m
    return m


_SYMNP = None
_SYMPD = None


def symnp():
    global _SYMNP
    if _SYMNP is None:
        _SYMNP = pdshim.make_numpy()
    return _SYMNP


def sympd():
    global _SYMPD
    if _SYMPD is None:
        _SYMPD = pdshim.make_pandas()
    return _SYMPD


def sym_pandas_model():
    """the repository's PandasModelBase (current source) running over sympd / symnp"""
    if "model" in _CACHE:
        return _CACHE["model"]
    import data_algebra.util as real_util

    util_shim = _make_util_shim(real_util)
    m = private_copy("pandas_base", {"numpy": symnp()}, pkg_overrides={"util": util_shim})
    spd = sympd()

    class SymPandasModel(m.PandasModelBase):
        def __init__(self):
            m.PandasModelBase.__init__(self, pd=spd, presentation_model_name="sympd")

    model = SymPandasModel()
    _CACHE["model"] = model
    _CACHE["pandas_base_copy"] = m
    return model
