"""Program generator: pipelines as Python source strings built from the public operators (bounded, exhaustively enumerated grammar).

A program is (src, tables) where tables are the input table names it reads.  Steps are suffix strings applied to a prefix; a
combination the real builder rejects is not a program.  Column names are fixed (g key, x y values, z in the second table) so that most
combinations are well-typed; the builder is the arbiter.
"""
from __future__ import annotations

import itertools
import random
import warnings

SCHEMA = {
    "d": [("g", "i", True), ("x", "f", True), ("y", "f", True)],
    "e": [("g", "i", True), ("z", "f", True)],
    "f": [("g", "i", True), ("x", "f", True), ("y", "f", True)],
    "k": [("k", "i", True), ("z", "f", True)],
    "q": [("j1", "f", True), ("j2", "f", True), ("z", "f", True)],
    # a right-hand table whose key is called k and which ALSO has an ordinary column named like the left key (g): self-join style schemas
    "s": [("k", "i", True), ("g", "i", True), ("z", "f", True)],
    # the same three columns stored in two different column orders (positional consumers: UNION ALL)
    "t1": [("v", "f", True), ("x", "f", True), ("g", "i", True)],
    "t2": [("g", "i", True), ("x", "f", True), ("v", "f", True)],
}
D = "TableDescription(table_name='d', column_names=['g', 'x', 'y'])"
E = "TableDescription(table_name='e', column_names=['g', 'z'])"
F = "TableDescription(table_name='f', column_names=['g', 'x', 'y'])"
K = "TableDescription(table_name='k', column_names=['k', 'z'])"
S = "TableDescription(table_name='s', column_names=['k', 'g', 'z'])"

# (name, suffix, kind)
STEPS = [
    ("ext_add", ".extend({'w': 'x + y'})", "extend"),
    ("ext_over", ".extend({'x': 'x * 2', 'v': 'y - 1'})", "extend"),
    ("ext_chain", ".extend({'w': 'x + 1'}).extend({'v': 'w * y'})", "extend"),
    ("ext_const", ".extend({'c': '1', 'x': '-x'})", "extend"),
    ("ext_null", ".extend({'b': 'x.is_bad()', 'n': 'y.is_null()', 'c': 'x %?% y'})", "extend"),
    ("ext_minmax", ".extend({'w': 'x.maximum(y)', 'u': 'x.fmin(y)'})", "extend"),
    ("ext_ifelse", ".extend({'w': '(x > y).if_else(x, y)'})", "extend"),
    ("ext_where", ".extend({'w': '(x > 0).where(x, 0.0)'})", "extend"),
    ("ext_mapv", ".extend({'m': 'g.mapv({1: 10, 2: 20}, 0)', 'q': 'g.is_in([1, 2])'})", "extend"),
    ("ext_num", ".extend({'a': 'x.abs()', 's': 'x.sign()', 'f': 'x.floor()', 'p': 'x ** 2'})", "extend"),
    ("ext_cmp", ".extend({'b': 'x > y'})", "extend"),
    ("ext_rekey", ".extend({'y': '-y', 'g': 'g - g'})", "extend"),
    ("win_cumsum", ".extend({'c': 'x.cumsum()'}, partition_by=['g'], order_by=['y'])", "window"),
    ("win_rownum", ".extend({'r': '_row_number()', 's': 'x.shift()'}, partition_by=['g'], order_by=['y', 'x'], reverse=['x'])", "window"),
    ("win_sum", ".extend({'t': 'x.sum()', 'n': '_size()'}, partition_by=['g'])", "window"),
    ("win_max", ".extend({'m': 'x.max()', 'c': 'y.count()'}, partition_by=['g'])", "window"),
    ("win_cummax", ".extend({'m': 'x.cummax()'}, partition_by=[], order_by=['y'], reverse=['y'])", "window"),
    ("win_mean", ".extend({'a': 'x.mean()', 'mn': 'x.min()'}, partition_by=['g', 'y'])", "window"),
    ("prj_sum", ".project({'s': 'x.sum()', 'm': 'y.max()'}, group_by=['g'])", "project"),
    ("prj_colsize", ".project({'n': 'x.size()', 'c': 'x.count()'}, group_by=['g'])", "project"),  # size counts rows (nulls too), count the present values
    ("win_colsize", ".extend({'n': 'x.size()', 'c': 'x.count()'}, partition_by=['g'])", "window"),
    ("prj_size", ".project({'n': '_size()', 'a': 'x.mean()'}, group_by=['g'])", "project"),
    ("prj_all", ".project({'s': 'x.sum()', 'c': 'y.count()'})", "project"),
    ("prj_keys", ".project({}, group_by=['g'])", "project"),
    ("prj_two", ".project({'mn': 'y.min()'}, group_by=['g', 'x'])", "project"),
    ("sel_gt", ".select_rows('x > 1')", "select_rows"),
    ("sel_and", ".select_rows('(x > y) and (g == 1)')", "select_rows"),
    ("sel_null", ".select_rows('x.is_null() or (y <= 0)')", "select_rows"),
    ("cols_sel", ".select_columns(['g', 'x'])", "select_columns"),
    ("cols_drop", ".drop_columns(['y'])", "drop_columns"),
    ("cols_key", ".select_columns(['g'])", "select_columns"),
    ("cols_dropx", ".drop_columns(['x'])", "drop_columns"),
    ("cols_ren", ".rename_columns({'x2': 'x'})", "rename_columns"),
    ("cols_swap", ".map_columns({'x': 'y', 'y': 'x'})", "map_columns"),
    ("cols_mapdel", ".map_columns({'x': 'x2', 'y': None})", "map_columns"),  # a rename plus a deletion in one step
    ("ord_x", ".order_rows(['x'])", "order_rows"),
    ("ord_lim", ".order_rows(['g', 'x'], reverse=['x'], limit=2)", "order_rows"),
    ("ord_biglim", ".order_rows(['x'], limit=7)", "order_rows"),
    ("ord_lim1", ".order_rows(['y'], reverse=['y'], limit=1)", "order_rows"),  # a limit that binds on two-row tables
    ("join_inner", f".natural_join(b={E}, on=['g'], jointype='inner')", "natural_join"),
    ("join_left", f".natural_join(b={E}, on=['g'], jointype='left')", "natural_join"),
    ("join_right", f".natural_join(b={E}, on=['g'], jointype='right')", "natural_join"),
    ("join_full", f".natural_join(b={E}, on=['g'], jointype='full')", "natural_join"),
    ("join_cross", f".natural_join(b={E}.rename_columns({{'g2': 'g'}}), on=[], jointype='cross')", "natural_join"),
    ("join_diffkey", f".natural_join(b={K}, on=[('g', 'k')], jointype='left')", "natural_join"),
    ("join_shared", f".natural_join(b={F}.rename_columns({{'z': 'y'}}), on=['g'], jointype='left')", "natural_join"),
    ("join_diffkey_shadow", f".natural_join(b={S}, on=[('g', 'k')], jointype='left')", "natural_join"),
    ("cat", f".concat_rows(b={F})", "concat_rows"),
    ("cat_id", f".concat_rows(b={F}, id_column='src')", "concat_rows"),
    # without an id column the two branches are written into the UNION ALL as they are (no wrapping extend)
    ("cat_noid", f".concat_rows(b={F}, id_column=None)", "concat_rows"),
    ("cat_noid_lim", f".concat_rows(b={F}.order_rows(['x'], limit=1), id_column=None)", "concat_rows"),
    # record transform (cdata): one (k, v) block row per value column; in SQL a CROSS JOIN with the inlined control table
    ("rec_unpivot", ".convert_records(RecordMap(blocks_out=RecordSpecification(pd.DataFrame({'k': ['a', 'b'], 'v': ['x', 'y']}), "
                    "record_keys=['g'], control_table_keys=['k'])))", "convert_records"),
    # only buildable directly/indirectly after rec_unpivot (the builder is the arbiter): narrowing right after a raw query step
    ("cols_dropv", ".drop_columns(['v'])", "drop_columns"),
    ("cols_selkv", ".select_columns(['v', 'k'])", "select_columns"),
]
STEP = {n: (s, k) for n, s, k in STEPS}


def tables_of(ops):
    return sorted(ops.get_tables().keys())


def try_build(src):
    from vf.sym import tv

    try:
        with warnings.catch_warnings():
            warnings.simplefilter("ignore")
            ops = tv.build_ops(src)
        return ops
    except Exception:
        return None


def make(names, base=D):
    return base + "".join(STEP[n][0] for n in names)


def enumerate_programs(depth, names=None, base=D):
    """all step sequences of exactly `depth` steps the builder accepts -> list of (label, src, tables)"""
    names = names or [n for n, _, _ in STEPS]
    out = []
    for combo in itertools.product(names, repeat=depth):
        src = make(combo, base)
        ops = try_build(src)
        if ops is None:
            continue
        out.append(("+".join(combo), src, tables_of(ops)))
    return out


# interaction triples worth having in the quick tier (shapes known to stress pruning / merging / CTE reuse)
CURATED = [
    ("prj_all", "ext_const", "cols_drop"),
    ("prj_sum", "ext_over", "cols_sel"),
    ("ext_add", "ext_over", "sel_gt"),
    ("ext_chain", "cols_drop", "prj_sum"),
    ("ord_x", "join_left", "prj_size"),
    ("join_left", "win_sum", "sel_gt"),
    ("cat_id", "prj_sum", "ord_lim"),
    ("win_rownum", "sel_gt", "cols_sel"),
    ("cols_swap", "win_cumsum", "ord_x"),
    ("sel_null", "join_full", "prj_keys"),
    ("ext_over", "ext_over", "ext_add"),
    ("join_inner", "ext_add", "prj_two"),
]


def random_programs(seed, count, depth_lo=3, depth_hi=5, names=None):
    rng = random.Random(seed)
    names = names or [n for n, _, _ in STEPS]
    out, tries = [], 0
    seen = set()
    while len(out) < count and tries < count * 40:
        tries += 1
        d = rng.randint(depth_lo, depth_hi)
        combo = tuple(rng.choice(names) for _ in range(d))
        if combo in seen:
            continue
        seen.add(combo)
        src = make(combo)
        ops = try_build(src)
        if ops is None:
            continue
        out.append(("+".join(combo), src, tables_of(ops)))
    return out


_MULTI = {"natural_join", "concat_rows", "convert_records"}


def quick_keep(label, one_in):
    """quick-tier subsample of the two-step programs that does not depend on the position of a program in the enumeration (adding a step to the
    vocabulary must not reshuffle what is covered): a program is kept when both of its steps combine tables (joins / concats / record
    transforms: few, and where steps interact most), otherwise by a hash of its label"""
    import hashlib

    names = label.split("+")
    if len(names) >= 2 and all(STEP.get(n, ("", ""))[1] in _MULTI for n in names):
        return True
    return int(hashlib.sha256(label.encode()).hexdigest(), 16) % one_in == 0


def row_vectors(tables, max_rows, max_rows_multi=None):
    """row-count assignments per input table: every table gets 0..max (multi-table programs use max_rows_multi)"""
    m = max_rows if len(tables) <= 1 else (max_rows_multi if max_rows_multi is not None else max_rows)
    vecs = []
    for combo in itertools.product(range(0, m + 1), repeat=len(tables)):
        vecs.append(dict(zip(tables, combo)))
    return vecs
