"""Symbolic scalars ("cells") shared by the pandas/numpy, polars and SQL models.

Cell = (null: z3 Bool, val: z3 Int|Real|Bool|String, kind) + two taints (z3 Bools):
  dc  -- "don't care": value produced by a *documented accepted difference* (integer / and %, sum/count over a group with no
         non-null member, division by zero).  Never compared; reaching a structural decision closes the path as outside the claim.
  kf  -- value produced at a site listed in known_findings.json (a recorded genuine defect).  Never compared; the run reports the
         KNOWN-FINDING line (after replaying its stored witness on the real engines).
Kinds: 'i' Int, 'f' Real, 'b' Bool, 's' String.
"""
from __future__ import annotations

import z3

from vf import forksym
from vf.forksym import B, OutsideClaim, KnownFindingPath

FALSE = z3.BoolVal(False)
TRUE = z3.BoolVal(True)


class Unmodelled(Exception):
    """the model does not cover this API use / value combination: the program is inconclusive (never a violation)"""


def zor(*xs):
    xs = [x for x in xs if not z3.is_false(x)]
    if not xs:
        return FALSE
    if any(z3.is_true(x) for x in xs):
        return TRUE
    return xs[0] if len(xs) == 1 else z3.Or(*xs)


def zand(*xs):
    xs = [x for x in xs if not z3.is_true(x)]
    if not xs:
        return TRUE
    if any(z3.is_false(x) for x in xs):
        return FALSE
    return xs[0] if len(xs) == 1 else z3.And(*xs)


def znot(x):
    if z3.is_true(x):
        return FALSE
    if z3.is_false(x):
        return TRUE
    return z3.Not(x)


# --- IEEE infinities (opt-in, per job).  Two free real constants stand for +inf / -inf; in "inf mode" an input cell may take these
# values (assumed: NINF <= every input value <= PINF), is-infinite tests mean "equals one of them", and witnesses turn them into real
# float('inf').  ARITHMETIC on them is NOT modelled (PINF + 1 != PINF): inf mode is only switched on for methods that move or test
# values without computing on them (see C05); everywhere else the data are finite by assumption.
PINF = z3.Real("__plus_infinity__")
NINF = z3.Real("__minus_infinity__")
INF_ON = [False]


def inf_formula(c):
    """z3: 'this cell holds +/- infinity' (FALSE outside inf mode and for non-float cells)"""
    if not INF_ON[0] or c.kind != "f":
        return FALSE
    return zand(znot(c.null), zor(c.val == PINF, c.val == NINF))


class Cell:
    __slots__ = ("null", "val", "kind", "dc", "kf", "kfs")

    def __init__(self, null, val, kind, dc=FALSE, kf=FALSE, kfs=False):
        self.null = z3.BoolVal(null) if isinstance(null, bool) else null
        self.val = val
        self.kind = kind
        self.dc = dc
        self.kf = kf
        # kfs: the kf taint of this boolean only confuses False with NULL, so "is it TRUE" (row filters) is still reliable
        self.kfs = kfs

    def __repr__(self):
        return f"Cell<{self.kind}>({z3.simplify(self.null)},{z3.simplify(self.val)})"

    # Cells are never truth-tested or compared by Python code under test
    def __bool__(self):
        raise Unmodelled("truth value of a symbolic cell")

    def with_(self, **kw):
        c = Cell(self.null, self.val, self.kind, self.dc, self.kf)
        for k, v in kw.items():
            setattr(c, k, v)
        return c


_DEFAULT = {"i": lambda: z3.IntVal(0), "f": lambda: z3.RealVal(0), "b": lambda: FALSE, "s": lambda: z3.StringVal("")}


def null_cell(kind="f"):
    return Cell(TRUE, _DEFAULT[kind](), kind)


def lit(v, kind_hint=None):
    """python scalar -> Cell"""
    if isinstance(v, Cell):
        return v
    if v is None:
        return null_cell(kind_hint or "f")
    if isinstance(v, bool):
        return Cell(FALSE, z3.BoolVal(v), "b")
    if isinstance(v, int):
        return Cell(FALSE, z3.IntVal(v), "i")
    if isinstance(v, float):
        if v != v:
            return null_cell("f")
        if v in (float("inf"), float("-inf")):
            raise Unmodelled("infinite literal")
        from fractions import Fraction

        fr = Fraction(v)
        return Cell(FALSE, z3.RealVal(fr.numerator) / z3.RealVal(fr.denominator) if fr.denominator != 1 else z3.RealVal(fr.numerator), "f")
    if isinstance(v, str):
        return Cell(FALSE, z3.StringVal(v), "s")
    try:
        import numpy

        if isinstance(v, numpy.generic):
            return lit(v.item(), kind_hint)
    except ImportError:
        pass
    raise Unmodelled(f"literal of type {type(v)}")


def is_scalar_like(v):
    return v is None or isinstance(v, (Cell, bool, int, float, str))


# ------------------------------------------------------------------ numeric views
def num(c: Cell):
    """numeric z3 term of a cell (bool -> 0/1)"""
    if c.kind == "b":
        return z3.If(c.val, z3.IntVal(1), z3.IntVal(0))
    if c.kind in ("i", "f"):
        return c.val
    raise Unmodelled("numeric use of a string cell")


def real(c: Cell):
    v = num(c)
    return z3.ToReal(v) if z3.is_int(v) else v


def is_intlike(c: Cell):
    return c.kind in ("i", "b")


def join_kind(a: Cell, b: Cell):
    if a.kind == b.kind:
        return a.kind
    ks = {a.kind, b.kind}
    if "s" in ks:
        raise Unmodelled("mixing string and non-string values")
    if "f" in ks:
        return "f"
    return "i"


def coerce(c: Cell, kind):
    if c.kind == kind:
        return c
    if kind == "f":
        return Cell(c.null, real(c), "f", c.dc, c.kf)
    if kind == "i":
        return Cell(c.null, num(c), "i", c.dc, c.kf) if c.kind == "b" else _coerce_fail(c, kind)
    return _coerce_fail(c, kind)


def _coerce_fail(c, kind):
    if z3.is_true(c.null):
        return Cell(TRUE, _DEFAULT[kind](), kind, c.dc, c.kf)
    raise Unmodelled(f"coerce {c.kind}->{kind}")


def taint(*cs):
    return zor(*[c.dc for c in cs]), zor(*[c.kf for c in cs])


# ------------------------------------------------------------------ structural decisions
def decide(c_or_formula, cells=()):
    """fork on a structural predicate; close the path when a tainted value takes part"""
    for c in cells:
        if not z3.is_false(c.dc) and B(c.dc):
            raise OutsideClaim("accepted-difference value reached a structural decision")
        if not z3.is_false(c.kf) and B(c.kf):
            raise KnownFindingPath("kf value reached a structural decision")
    return B(c_or_formula)


def decide_true(c: Cell, formula):
    """fork on 'this boolean cell is TRUE' (row filter): a False-vs-NULL known-finding taint does not matter here"""
    if not z3.is_false(c.dc) and B(c.dc):
        raise OutsideClaim("accepted-difference value reached a structural decision")
    if not c.kfs and not z3.is_false(c.kf) and B(c.kf):
        raise KnownFindingPath("kf value reached a structural decision")
    return B(formula)


def is_null_py(c: Cell):
    return decide(c.null, (c,))


def same_py(a: Cell, b: Cell):
    """structural equality with null == null (pandas grouping / merge keys)"""
    return decide(same(a, b), (a, b))


def same(a: Cell, b: Cell):
    if a.kind == "s" or b.kind == "s":
        if a.kind != b.kind:
            if z3.is_true(a.null) or z3.is_true(b.null):
                return zand(a.null, b.null)
            raise Unmodelled("comparing string with non-string")
        eq = a.val == b.val
    elif a.kind == "b" and b.kind == "b":
        eq = a.val == b.val
    else:
        x, y = num(a), num(b)
        if z3.is_int(x) != z3.is_int(y):
            x, y = real(a), real(b)
        eq = x == y
    return zor(zand(a.null, b.null), zand(znot(a.null), znot(b.null), eq))


def lt(a: Cell, b: Cell):
    """value order a < b on non-null cells (z3 Bool)"""
    if a.kind == "s" and b.kind == "s":
        return a.val < b.val
    if a.kind == "s" or b.kind == "s":
        raise Unmodelled("ordering string against non-string")
    x, y = num(a), num(b)
    if z3.is_int(x) != z3.is_int(y):
        x, y = real(a), real(b)
    return x < y


def veq(a: Cell, b: Cell):
    """value equality on non-null cells"""
    if a.kind == "s" and b.kind == "s":
        return a.val == b.val
    if a.kind == "s" or b.kind == "s":
        raise Unmodelled("comparing string with non-string")
    if a.kind == "b" and b.kind == "b":
        return a.val == b.val
    x, y = num(a), num(b)
    if z3.is_int(x) != z3.is_int(y):
        x, y = real(a), real(b)
    return x == y


# ------------------------------------------------------------------ comparison relation of C01 (final assertion)
def cell_equiv(a: Cell, b: Cell, allow_kf=True):
    """z3 Bool: cells are indistinguishable under the C01 comparison rules (null~NaN, bool~0/1, numbers as reals)"""
    if (a.kind == "s") != (b.kind == "s"):
        # a string against a number can only agree when both are null
        e = zand(a.null, b.null)
    else:
        e = same(a, b)
    extra = [a.dc, b.dc]
    if allow_kf:
        extra += [a.kf, b.kf]
    return zor(e, *extra)


def rows_equiv_positional(A, Bm, allow_kf=True):
    cons = []
    for r, s in zip(A, Bm):
        cons.extend(cell_equiv(x, y, allow_kf) for x, y in zip(r, s))
    return zand(*cons) if cons else TRUE


def rows_equiv_multiset(A, Bm, allow_kf=True):
    """A, Bm: lists of rows (lists of Cells, same column order), same length.  Equal as multisets <=> there is a perfect
    matching; encoded by counting: every row occurs equally often on both sides.  With don't-care cells the counting encoding is not
    transitive, so a permutation-existence encoding is used instead (n <= 6 in practice)."""
    n = len(A)
    if n != len(Bm):
        return FALSE
    if n == 0:
        return TRUE
    req = [[zand(*[cell_equiv(x, y, allow_kf) for x, y in zip(r, s)]) for s in Bm] for r in A]
    if n == 1:
        return req[0][0]
    import itertools

    if n <= 4:
        return zor(*[zand(*[req[i][p[i]] for i in range(n)]) for p in itertools.permutations(range(n))])
    # larger: Hall-style matching variables
    m = [[z3.FreshBool("mt") for _ in range(n)] for _ in range(n)]
    cons = []
    for i in range(n):
        cons.append(z3.PbEq([(m[i][j], 1) for j in range(n)], 1))
        cons.append(z3.PbEq([(m[j][i], 1) for j in range(n)], 1))
        for j in range(n):
            cons.append(z3.Implies(m[i][j], req[i][j]))
    # existential over fresh Bools: sound for "holds" only when asserted positively; callers negate -> use quantifier
    mv = [v for row in m for v in row]
    return z3.Exists(mv, zand(*cons))


# ------------------------------------------------------------------ concretisation
def model_value(model, c: Cell):
    """Cell -> python value under a z3 model (None for null)"""
    if z3.is_true(model.eval(c.null, model_completion=True)):
        return None
    v = model.eval(c.val, model_completion=True)
    if c.kind == "b":
        return bool(z3.is_true(v))
    if c.kind == "i":
        return v.as_long()
    if c.kind == "f":
        if INF_ON[0]:
            if z3.is_true(model.eval(c.val == PINF, model_completion=True)):
                return float("inf")
            if z3.is_true(model.eval(c.val == NINF, model_completion=True)):
                return float("-inf")
        if z3.is_int_value(v):
            return float(v.as_long())
        if z3.is_rational_value(v):
            return v.numerator_as_long() / v.denominator_as_long()
        if z3.is_algebraic_value(v):
            return float(v.approx(20).as_decimal(20).rstrip("?"))
        raise Unmodelled("non-numeric model value")
    if c.kind == "s":
        return v.as_string()
    raise Unmodelled(c.kind)
