"""Documented meaning as z3 terms (reference sides).  Written from the property statements and the docstrings only, never from an
implementation: standard SQL join semantics (C16), one row per distinct key combination with null its own group / exactly one row
ungrouped (C09), per-row window values over the row's partition in the declared order (C27, order-free formulas)."""
from __future__ import annotations

import z3

from vf.sym import cell as C
from vf.sym import pdshim, rel
from vf.sym.cell import Cell, Unmodelled, null_cell, zand, zor, znot, FALSE, TRUE, decide


def _rows(tabs, t):
    cols = list(tabs[t].keys())
    n = len(next(iter(tabs[t].values()))) if tabs[t] else 0
    return cols, [[tabs[t][c][i] for c in cols] for i in range(n)]


def _coalesce(a: Cell, b: Cell):
    k = a.kind if a.kind == b.kind else C.join_kind(a, b)
    a2, b2 = C.coerce(a, k), C.coerce(b, k)
    return Cell(zand(a.null, b.null), z3.If(a.null, b2.val, a2.val), k)


# ------------------------------------------------------------------------------------------------------------------ C16 joins
def ref_join(tabs, nrows, left, right, on_a, on_b, jointype):
    """standard SQL join of tables `left`, `right` on left.on_a[i] = right.on_b[i] (null keys never match), result columns as
    natural_join declares them: left columns then right-only columns; shared columns = left value, or right value where left is null"""
    jointype = jointype.upper()
    lc, lrows = _rows(tabs, left)
    rc, rrows = _rows(tabs, right)
    out_cols = list(lc) + [c for c in rc if c not in lc]
    pairs, lm, rm = [], set(), set()
    for i, lr in enumerate(lrows):
        for j, rr in enumerate(rrows):
            ok = True
            if jointype != "CROSS":
                for a, b in zip(on_a, on_b):
                    x, y = lr[lc.index(a)], rr[rc.index(b)]
                    if not decide(zand(znot(x.null), znot(y.null), C.veq(x, y)), (x, y)):
                        ok = False
                        break
            if ok:
                pairs.append((i, j))
                lm.add(i)
                rm.add(j)
    rows = list(pairs)
    if jointype in ("LEFT", "FULL"):
        rows += [(i, None) for i in range(len(lrows)) if i not in lm]
    if jointype in ("RIGHT", "FULL"):
        rows += [(None, j) for j in range(len(rrows)) if j not in rm]
    kinds = {}
    for c in out_cols:
        src = tabs[left][c] if c in lc else tabs[right][c]
        kinds[c] = src[0].kind if src else "f"
    out = []
    for i, j in rows:
        r = []
        for c in out_cols:
            lv = lrows[i][lc.index(c)] if (i is not None and c in lc) else None
            rv = rrows[j][rc.index(c)] if (j is not None and c in rc) else None
            if lv is not None and rv is not None:
                r.append(_coalesce(lv, rv))
            elif lv is not None:
                r.append(lv)
            elif rv is not None:
                r.append(rv)
            else:
                r.append(null_cell(kinds[c]))
        out.append(r)
    return rel.SideResult(out_cols, out, ordered=False)


# ------------------------------------------------------------------------------------------------------------------ C09 grouping
def _group(rows, cols, keys):
    groups, reps = [], []
    for r in rows:
        key = [r[cols.index(k)] for k in keys]
        for gi, rep in enumerate(reps):
            if all(C.same_py(a, b) for a, b in zip(key, rep)):
                groups[gi].append(r)
                break
        else:
            reps.append(key)
            groups.append([r])
    return groups, reps


def _agg_doc(op, cells):
    """documented aggregate meaning (missing values are skipped; sum/count of nothing are the accepted-difference cases)"""
    if op == "size":
        return Cell(FALSE, z3.IntVal(len(cells)), "i")
    r = pdshim._agg(cells, op)
    return Cell(r.null, r.val, r.kind, r.dc)


def ref_project(tabs, nrows, table, group_by, aggs):
    """aggs: [(out, op, col|None)] -> one row per distinct key combination (null its own group); exactly one row when ungrouped"""
    cols, rows = _rows(tabs, table)
    if group_by:
        groups, reps = _group(rows, cols, group_by)
    else:
        groups, reps = [rows], [[]]
    out_cols = list(group_by) + [a[0] for a in aggs]
    out = []
    for g, rep in zip(groups, reps):
        r = list(rep)
        for o, op, col in aggs:
            cells = [row[cols.index(col)] for row in g] if col is not None else [Cell(FALSE, z3.IntVal(1), "i") for _ in g]
            r.append(_agg_doc(op, cells))
        out.append(r)
    return rel.SideResult(out_cols, out, ordered=False)


def ref_window_group(tabs, nrows, table, partition_by, aggs):
    """windowed extend without order: every input row kept, each value computed over the row's partition (null key included)"""
    cols, rows = _rows(tabs, table)
    out_cols = list(cols) + [a[0] for a in aggs]
    out = []
    for r in rows:
        mates = [s for s in rows if all(C.same_py(r[cols.index(k)], s[cols.index(k)]) for k in partition_by)]
        rr = list(r)
        for o, op, col in aggs:
            cells = [s[cols.index(col)] for s in mates] if col is not None else [Cell(FALSE, z3.IntVal(1), "i") for _ in mates]
            rr.append(_agg_doc(op, cells))
        out.append(rr)
    return rel.SideResult(out_cols, out, ordered=False)


def ref_rowcount_groups(tabs, nrows, table, group_by):
    """a table with one (empty) row per distinct key combination of `table` (exactly one row if ungrouped): row-count oracle"""
    cols, rows = _rows(tabs, table)
    if group_by:
        groups, _ = _group(rows, cols, group_by)
        return rel.SideResult([], [[] for _ in groups])
    return rel.SideResult([], [[]])


# ------------------------------------------------------------------------------------------------------------------ C17 record layouts
def unpivot_tables(tabs, nrows, src, dst, layout, perm=None, col_order=None, symbolic=True):
    """reference rows -> blocks (pure data movement, works on Cells and on python values):
    layout = {"record_keys": [...], "key_cols": [...], "control": {col: [per control row entries]}} ; control row i gives, for every
    record, one block row (record keys, key values of row i, value columns taken from the row-form columns named in row i)"""
    const = (lambda s: C.lit(s)) if symbolic else (lambda s: s)
    rk, kc = layout["record_keys"], layout["key_cols"]
    control = layout["control"]
    vcols = [c for c in control if c not in kc]
    nctl = len(control[kc[0]])
    n = nrows[src]
    out = {c: [] for c in rk + kc + vcols}
    for r in range(n):
        for i in range(nctl):
            for c in rk:
                out[c].append(tabs[src][c][r])
            for c in kc:
                out[c].append(const(control[c][i]))
            for c in vcols:
                out[c].append(tabs[src][control[c][i]][r])
    m = n * nctl
    if perm is not None:
        p = [q for q in perm if q < m] + [q for q in range(m) if q not in perm]
        out = {c: [v[q] for q in p] for c, v in out.items()}
    if col_order is not None:
        out = {c: out[c] for c in col_order if c in out}
    t2 = {k: v for k, v in tabs.items() if k != dst}
    t2[dst] = out
    n2 = dict(nrows)
    n2[dst] = m
    return t2, n2


def ref_blocks(tabs, nrows, src, layout):
    t2, n2 = unpivot_tables(tabs, nrows, src, "__blk__", layout)
    cols = list(t2["__blk__"].keys())
    rows = [[t2["__blk__"][c][i] for c in cols] for i in range(n2["__blk__"])]
    return rel.SideResult(cols, rows)


def ref_rows(tabs, nrows, src, cols):
    return rel.SideResult(list(cols), [[tabs[src][c][i] for c in cols] for i in range(nrows[src])])


# ------------------------------------------------------------------------------------------------------------------ C21 helpers
def ref_rank_to_average(tabs, nrows, table, order_by, partition_by, rank_col):
    """docstring: the rank of each item is the average of the positions of all items with the same order position, within its partition:
    rank = (#partition mates strictly before) + (#mates with equal order key + 1) / 2   (order keys assumed non-null)"""
    cols, rows = _rows(tabs, table)
    pidx = [cols.index(c) for c in partition_by]
    oidx = [cols.index(c) for c in order_by]
    out = []
    for r in rows:
        less, eq = [], []
        for s in rows:
            same = _same_part(r, s, pidx)
            keq = zand(*[C.veq(s[i], r[i]) for i in oidx])
            before = zand(_before_eq(s, r, oidx, [False] * len(oidx)), znot(keq))
            less.append(z3.If(zand(same, before), 1, 0))
            eq.append(z3.If(zand(same, keq), 1, 0))
        rank = z3.ToReal(z3.Sum(less)) + (z3.ToReal(z3.Sum(eq)) + 1) / 2
        out.append(list(r) + [Cell(FALSE, rank, "f")])
    return rel.SideResult(list(cols) + [rank_col], out)


def ref_locf(tabs, nrows, table, order_by, partition_by, value_col):
    """docstring: fill each missing value with the latest earlier non-missing value of its partition (order total, keys non-null)"""
    cols, rows = _rows(tabs, table)
    pidx = [cols.index(c) for c in partition_by]
    oidx = [cols.index(c) for c in order_by]
    vi = cols.index(value_col)
    rev = [False] * len(oidx)
    out = []
    n = len(rows)
    for i, r in enumerate(rows):
        res = r[vi]
        # among mates strictly before r with a value, take the latest: the one no other such mate comes after
        for j, s in enumerate(rows):
            if j == i:
                continue
            cand = zand(_same_part(r, s, pidx), _before_eq(s, r, oidx, rev), znot(s[vi].null))
            later = [zand(_same_part(r, t, pidx), _before_eq(t, r, oidx, rev), znot(t[vi].null), _before_eq(s, t, oidx, rev)) for k, t in enumerate(rows) if k not in (i, j)]
            is_latest = zand(cand, znot(zor(*later)) if later else TRUE)
            take = zand(r[vi].null, is_latest)
            res = Cell(z3.If(take, FALSE, res.null), z3.If(take, s[vi].val, res.val), res.kind)
        rr = list(r)
        rr[vi] = res
        out.append(rr)
    return rel.SideResult(list(cols), out)


# ------------------------------------------------------------------------------------------------------------------ C27 windows
def _same_part(r, s, idx):
    return zand(*[C.same(r[i], s[i]) for i in idx])


def _before_eq(s, r, oidx, rev):
    """s comes before r, or is r's peer, in the declared lexicographic order (keys assumed non-null)"""
    res = TRUE  # all keys equal -> peer
    for i, d in reversed(list(zip(oidx, rev))):
        lt = C.lt(r[i], s[i]) if d else C.lt(s[i], r[i])
        eq = C.veq(s[i], r[i])
        res = zor(lt, zand(eq, res))
    return res


def ref_window_ordered(tabs, nrows, table, partition_by, order_by, reverse, fns):
    """fns: [(out, fn, col|None, arg)] with fn in cumsum cummax cummin row_number shift count(all rows so far);
    order-free encoding: position(r) = number of partition mates at or before r"""
    cols, rows = _rows(tabs, table)
    pidx = [cols.index(c) for c in partition_by]
    oidx = [cols.index(c) for c in order_by]
    rev = [c in set(reverse) for c in order_by]
    out_cols = list(cols) + [f[0] for f in fns]
    out = []
    n = len(rows)
    upto = [[zand(_same_part(r, s, pidx), _before_eq(s, r, oidx, rev)) for s in rows] for r in rows]  # upto[r][s]
    pos = [z3.Sum([z3.If(upto[i][j], 1, 0) for j in range(n)]) if n else z3.IntVal(0) for i in range(n)]
    for i, r in enumerate(rows):
        rr = list(r)
        for o, fn, col, arg in fns:
            ci = cols.index(col) if col is not None else None
            if fn == "row_number":
                rr.append(Cell(FALSE, pos[i], "i"))
            elif fn == "cumsum":
                k = rows[0][ci].kind
                zero = z3.RealVal(0) if k == "f" else z3.IntVal(0)
                v = z3.Sum([z3.If(zand(upto[i][j], znot(rows[j][ci].null)), rows[j][ci].val, zero) for j in range(n)])
                rr.append(Cell(r[ci].null, v, k))
            elif fn in ("cummax", "cummin"):
                k = rows[0][ci].kind
                bn, bv = TRUE, r[ci].val
                for j in range(n):
                    c = rows[j][ci]
                    better = (c.val > bv) if fn == "cummax" else (c.val < bv)
                    take = zand(upto[i][j], znot(c.null), zor(bn, better))
                    bv = z3.If(take, c.val, bv)
                    bn = zand(bn, znot(zand(upto[i][j], znot(c.null))))
                rr.append(Cell(zor(bn, r[ci].null), bv, k))
            elif fn == "shift":
                p = 1 if arg is None else int(arg)
                k = rows[0][ci].kind
                res = null_cell(k)
                for j in range(n):
                    hit = zand(_same_part(r, rows[j], pidx), pos[j] == pos[i] - p)
                    res = Cell(z3.If(hit, rows[j][ci].null, res.null), z3.If(hit, rows[j][ci].val, res.val), k)
                rr.append(res)
            else:
                raise Unmodelled(f"reference window function {fn}")
        out.append(rr)
    return rel.SideResult(out_cols, out, ordered=False)
