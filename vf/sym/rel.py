"""Symbolic input tables, running the real executors over the models, the comparison relation, witnesses and real-engine replay."""
from __future__ import annotations

import itertools
import math
import traceback
import warnings

import z3

from vf import forksym
from vf.sym import cell as C
from vf.sym import pdshim, sqlsym, load, udf
from vf.sym.cell import Cell, Unmodelled, zand, zor, znot, FALSE, TRUE

# ----------------------------------------------------------------------------------------------------------------- schemas
# schema: {table: [(col, kind, nullable), ...]}


def sym_cells(table, cols, n, prefix=""):
    """{col: [Cell...]} with fresh z3 constants named <prefix><table>.<col>.<i>"""
    out = {}
    for col, kind, nullable in cols:
        cs = []
        for i in range(n):
            nm = f"{prefix}{table}.{col}.{i}"
            if kind == "i":
                v = z3.Int(nm)
            elif kind == "f":
                v = z3.Real(nm)
            elif kind == "b":
                v = z3.Bool(nm)
            else:
                v = z3.String(nm)
            cs.append(Cell(z3.Bool(nm + ".null") if nullable else FALSE, v, kind))
        out[col] = cs
    return out


def sym_frame(cells, n, index=None, owner=None):
    f = pdshim.DataFrame({k: list(v) for k, v in cells.items()}, index=index, _owner=owner)
    f._n = n
    if index is None:
        f.index = list(range(n))
    return f


def concretize_tables(model, tabs):
    """{table: {col: [python values]}} from a z3 model"""
    return {t: {c: [C.model_value(model, x) for x in cs] for c, cs in cols.items()} for t, cols in tabs.items()}


def nice_model(solver, tabs, extra=()):
    """prefer witnesses with small integers / quarter-integer reals / short lowercase strings (exactly representable in the engines)"""
    cons, cons_inf = [], []
    for t, cols in tabs.items():
        for c, cs in cols.items():
            for x in cs:
                if x.kind == "i":
                    e = z3.And(x.val >= -9, x.val <= 9)
                    cons.append(e)
                    cons_inf.append(e)
                elif x.kind == "f":
                    k = z3.FreshInt("q")
                    nice = z3.And(x.val == z3.ToReal(k) / 4, k >= -40, k <= 40)
                    cons.append(nice)
                    cons_inf.append(z3.Or(nice, x.val == C.PINF, x.val == C.NINF))
                elif x.kind == "s":
                    e = z3.InRe(x.val, z3.Loop(z3.Range("a", "c"), 0, 2))
                    cons.append(e)
                    cons_inf.append(e)
    solver.push()
    try:
        for e in extra:
            solver.add(e)
        # inf mode: finite nice values first, then as few infinities as the path needs (soft preference by retrying)
        for cs in ([cons, cons_inf] if C.INF_ON[0] else [cons]):
            solver.push()
            solver.add(*cs)
            r = solver.check()
            m = solver.model() if r == z3.sat else None
            solver.pop()
            if m is not None:
                return m
        if solver.check() == z3.sat:
            return solver.model()
        return None
    finally:
        solver.pop()


# ----------------------------------------------------------------------------------------------------------------- running
class SideResult:
    """outcome of one backend on one path: a table (cols, rows of Cells, ordered flag) or an exception"""

    def __init__(self, cols=None, rows=None, ordered=False, exc=None, unmodelled=None):
        self.cols, self.rows, self.ordered, self.exc, self.unmodelled = cols, rows, ordered, exc, unmodelled

    @property
    def ok(self):
        return self.exc is None and self.unmodelled is None

    def describe(self):
        if self.unmodelled:
            return "unmodelled: " + self.unmodelled
        if self.exc:
            return "raises " + self.exc
        return f"{len(self.rows)} rows x {self.cols}"


def run_pandas(ops, tabs, n_rows, indexes=None, owners=False):
    """real PandasModelBase.eval (current source) over the pandas/numpy model"""
    model = load.sym_pandas_model()
    try:
        frames = {t: sym_frame(cols, n_rows[t], index=(indexes or {}).get(t), owner=(t if owners else None)) for t, cols in tabs.items()}
        pdshim.ORDER_SORT_TIES[0] = False
        with warnings.catch_warnings():
            warnings.simplefilter("ignore")
            res = model.eval(ops, data_map=frames)
        if not isinstance(res, pdshim.DataFrame):
            return SideResult(unmodelled=f"result type {type(res)}")
        cols = list(res.columns)
        rows = [[res._cols[c][i] for c in cols] for i in range(res._n)]
        # a pipeline ending in order_rows defines the row sequence, except among rows tied on the order columns
        ordered = getattr(ops, "node_name", "") == "OrderRowsNode" and not pdshim.ORDER_SORT_TIES[0]
        return SideResult(cols, rows, ordered=ordered)
    except Unmodelled as u:
        return SideResult(unmodelled=str(u))
    except Exception as e:
        return SideResult(exc=f"{type(e).__name__}: {str(e)[:200]}")


def run_sql(sql, tabs, dialect="sqlite"):
    try:
        tables = {t: (list(cols.keys()), [list(r) for r in zip(*cols.values())] if cols and len(next(iter(cols.values()))) else [])
                  for t, cols in tabs.items()}
        r = sqlsym.execute(sql, tables, dialect=dialect, udfs=udf.sqlite_udfs() if dialect == "sqlite" else {})
        sr = SideResult(r.cols, r.rows, ordered=r.ordered)
        sr.order_kf = sqlsym.ORDER_KF[0]
        return sr
    except Unmodelled as u:
        return SideResult(unmodelled=str(u))
    except (sqlsym.SQLParseError, sqlsym.SQLExecError) as e:
        return SideResult(exc=f"{type(e).__name__}: {str(e)[:200]}")


def tables_equiv(a: SideResult, b: SideResult, ordered=False, allow_kf=True):
    """z3 formula (or python bool): the two results are the same table under the C01 comparison rules"""
    if set(a.cols) != set(b.cols) or len(a.cols) != len(b.cols):
        return False, "columns differ: %s vs %s" % (a.cols, b.cols)
    if len(a.rows) != len(b.rows):
        return False, "row counts differ: %d vs %d" % (len(a.rows), len(b.rows))
    perm = [b.cols.index(c) for c in a.cols]
    brows = [[r[j] for j in perm] for r in b.rows]
    if ordered:
        return C.rows_equiv_positional(a.rows, brows, allow_kf), "values (positional)"
    return C.rows_equiv_multiset(a.rows, brows, allow_kf), "values (multiset)"


def predicted(model, side: SideResult):
    """concrete prediction of a SideResult under a z3 model: (cols, rows of python values, rows of wildcard flags)"""
    if not side.ok:
        return None
    rows, wild = [], []
    for r in side.rows:
        rows.append([C.model_value(model, c) for c in r])
        # cells computed through an uninterpreted function (transcendentals, pow with a symbolic exponent) have no concrete prediction
        wild.append([bool(z3.is_true(model.eval(zor(c.dc, c.kf), model_completion=True))) or _uses_uf(c.val) or _uses_uf(c.null) for c in r])
    return side.cols, rows, wild


_UF_CACHE = {}


def _uses_uf(e):
    if not z3.is_expr(e):
        return False
    todo, seen = [e], set()
    while todo:
        x = todo.pop()
        i = x.get_id()
        if i in seen:
            continue
        seen.add(i)
        if z3.is_app(x):
            d = x.decl()
            if d.kind() == z3.Z3_OP_UNINTERPRETED and x.num_args() > 0 and d.name().startswith("uf_"):
                return True
            todo.extend(x.children())
    return False  # (no caching: z3 reuses AST ids after garbage collection)


# ----------------------------------------------------------------------------------------------------------------- real engines
def real_frames(tables, schema):
    import pandas as pd

    out = {}
    for t, cols in tables.items():
        d = {}
        kinds = {c: k for c, k, _ in schema[t]}
        for c, vals in cols.items():
            k = kinds[c]
            if k == "s":
                d[c] = pd.Series(list(vals), dtype=object)
            elif k == "b":
                d[c] = pd.Series(list(vals), dtype=(bool if all(v is not None for v in vals) else object))
            elif k == "i":
                d[c] = pd.Series(list(vals), dtype=("int64" if all(v is not None for v in vals) else "float64"))
            else:
                d[c] = pd.Series([float("nan") if v is None else float(v) for v in vals], dtype="float64")
        out[t] = pd.DataFrame(d)
        out[t].attrs["kinds"] = dict(kinds)  # declared column kinds (nullable ints become float columns in pandas; polars keeps them Int64)
    return out


def real_pandas(ops, frames):
    import pandas as pd

    try:
        with warnings.catch_warnings():
            warnings.simplefilter("ignore")
            res = ops.eval({k: v.copy() for k, v in frames.items()})
        return _frame_to_rows(res), None
    except Exception as e:
        return None, f"{type(e).__name__}: {str(e)[:200]}"


def real_sqlite(sql, frames):
    import data_algebra.SQLite

    h = data_algebra.SQLite.example_handle()
    try:
        with warnings.catch_warnings():
            warnings.simplefilter("ignore")
            for k, v in frames.items():
                if v.shape[1] == 0:
                    return None, "table without columns"
                h.insert_table(v, table_name=k, allow_overwrite=True)
            res = h.read_query(sql)
        return _frame_to_rows(res), None
    except Exception as e:
        return None, f"{type(e).__name__}: {str(e)[:200]}"
    finally:
        try:
            h.close()
        except Exception:
            pass


def _py(v):
    if v is None:
        return None
    try:
        import pandas as pd

        if v is pd.NA or v is pd.NaT:
            return None
    except Exception:
        pass
    if isinstance(v, float) and v != v:
        return None
    if hasattr(v, "item"):
        try:
            v = v.item()
        except Exception:
            pass
    if isinstance(v, float) and v != v:
        return None
    return v


def _frame_to_rows(df):
    cols = [str(c) for c in df.columns]
    rows = [[_py(df.iloc[i, j]) for j in range(df.shape[1])] for i in range(df.shape[0])]
    return cols, rows


def val_eq(a, b, tol=1e-6):
    if a is None or b is None:
        return a is None and b is None
    if isinstance(a, str) or isinstance(b, str):
        return a == b
    try:
        fa, fb = float(a), float(b)
    except (TypeError, ValueError):
        return a == b
    if math.isinf(fa) or math.isinf(fb):
        return fa == fb
    return abs(fa - fb) <= tol * max(1.0, abs(fa), abs(fb))


def concrete_tables_match(cols_a, rows_a, cols_b, rows_b, ordered=False, wild_a=None, wild_b=None):
    """compare concrete tables under the C01 rules; wild_* mark cells that are not compared"""
    if set(cols_a) != set(cols_b) or len(cols_a) != len(cols_b) or len(rows_a) != len(rows_b):
        return False
    perm = [cols_b.index(c) for c in cols_a]
    rb = [[r[j] for j in perm] for r in rows_b]
    wb = [[w[j] for j in perm] for w in wild_b] if wild_b else [[False] * len(cols_a) for _ in rb]
    wa = wild_a if wild_a else [[False] * len(cols_a) for _ in rows_a]

    def row_eq(i, j):
        return all(wa[i][k] or wb[j][k] or val_eq(rows_a[i][k], rb[j][k]) for k in range(len(cols_a)))

    n = len(rows_a)
    if ordered:
        return all(row_eq(i, i) for i in range(n))
    # bipartite perfect matching (n small)
    match = [-1] * n

    def try_row(i, seen):
        for j in range(n):
            if j not in seen and row_eq(i, j):
                seen.add(j)
                if match[j] < 0 or try_row(match[j], seen):
                    match[j] = i
                    return True
        return False

    return all(try_row(i, set()) for i in range(n))


def validate_side(pred, real, real_exc, side_exc, ordered=False, col_order=False):
    """does the real engine do what the model predicted under this witness?  -> (ok, detail)"""
    if side_exc is not None or pred is None:
        if real_exc is not None:
            return True, "both raise"
        return False, f"model raises ({side_exc}) but the real engine returns"
    if real_exc is not None:
        return False, f"real engine raises ({real_exc}) but the model returns"
    cols, rows, wild = pred
    ok = concrete_tables_match(cols, rows, real[0], real[1], ordered=ordered, wild_a=wild)
    if ok and col_order and list(cols) != list(real[0]):
        ok = False
    return ok, ("match" if ok else f"model predicted {cols}{rows} real {real[0]}{real[1]}")
