"""sympd / symnp: a symbolic stand-in for the part of the pandas / numpy API that data_algebra's Pandas executor
(pandas_base.py, cdata.py) calls.  Frames are dense: concrete row count and column names per path; cells are symbolic (vf.sym.cell).
Anything structural (masks, key equality, sort order, grouping) is decided through forksym.branch so that the *real* executor code
follows one concrete control-flow path per solver-feasible structure.

Semantics follow pandas 3 / numpy 2 operational behaviour where data_algebra relies on it (NaN==null, comparisons with null are False,
NaN keys match in merge, groupby drops null keys unless dropna=False, sort puts nulls last, sum of nothing is 0 ...).  The model is
validated on every run by pushing solver witnesses through the real engines (vf.sym.rel).
"""
from __future__ import annotations

import functools
import types

import z3

from vf import forksym
from vf.forksym import B, OutsideClaim
from vf.sym import cell as C
from vf.sym.cell import Cell, Unmodelled, lit, null_cell, zor, zand, znot, FALSE, TRUE, decide

# --------------------------------------------------------------------------------------------------------------- taint sources
# names of known-finding taint sources that are switched on (set by the check from known_findings.json)
KF_ON: set = set()
PATH_KF: list = []  # taint sources actually created on the current path (reset by harness)


def kf_src(name, cond):
    """a known-finding taint source: returns cond if the finding is listed (and records it), else FALSE"""
    if name in KF_ON and not z3.is_false(cond):
        if name not in PATH_KF:
            PATH_KF.append(name)
        return cond
    return FALSE


# caller-owned frames (C19): any in-place mutation of these is recorded
MUTATIONS: list = []
# set when an order_rows-style sort (not a window sort) met rows tied on all sort keys: their relative order is then not defined
ORDER_SORT_TIES = [False]
# helpers whose result does not depend on how ties are broken (C21 rank_to_average) switch the total-order requirement off
ALLOW_WINDOW_TIES = [False]


# --------------------------------------------------------------------------------------------------------------- vectors
class _Vec:
    """common base of Series (has an index) and NDArray (numpy result, positional)"""

    def __init__(self, cells, index=None, name=None):
        self.cells = [lit(c) for c in cells]
        self.index = list(range(len(self.cells))) if index is None else list(index)
        assert len(self.index) == len(self.cells)
        self.name = name
        self.gnames = None  # for groupby-agg results: group column names ...
        self.gkeys = None  # ... and per-row key tuples (Cells)

    def __len__(self):
        return len(self.cells)

    def __iter__(self):
        return iter(self.cells)

    @property
    def shape(self):
        return (len(self.cells),)

    @property
    def kind(self):
        ks = {c.kind for c in self.cells if not z3.is_true(c.null)}
        if not ks:
            return self.cells[0].kind if self.cells else "f"
        if len(ks) == 1:
            return next(iter(ks))
        if "s" in ks:
            return "o"
        return "f" if "f" in ks else "i"

    def _like(self, cells):
        r = type(self)(cells, self.index if isinstance(self, Series) else None)
        return r

    # ---- element access
    def __getitem__(self, k):
        if isinstance(k, _Vec):
            keep = _mask_positions(k)
            return type(self)([self.cells[i] for i in keep], [self.index[i] for i in keep])
        if isinstance(k, int):
            if isinstance(self, Series):
                hits = [i for i, l in enumerate(self.index) if l == k]
                if len(hits) != 1:
                    raise Unmodelled("Series[label] with missing/duplicate label")
                return self.cells[hits[0]]
            return self.cells[k]
        raise Unmodelled(f"vector getitem {type(k)}")

    def __setitem__(self, k, v):
        if isinstance(k, _Vec):
            pos = _mask_positions(k)
            if isinstance(v, _Vec):
                raise Unmodelled("masked vector assignment from vector")
            for i in pos:
                self.cells[i] = lit(v, self.cells[i].kind)
            return
        raise Unmodelled("vector setitem")

    # ---- arithmetic / comparison dunder methods (pandas Series behave like numpy ufuncs)
    def __add__(self, o):
        return np_add(self, o)

    def __radd__(self, o):
        return np_add(o, self)

    def __sub__(self, o):
        return np_subtract(self, o)

    def __rsub__(self, o):
        return np_subtract(o, self)

    def __mul__(self, o):
        return np_multiply(self, o)

    def __rmul__(self, o):
        return np_multiply(o, self)

    def __truediv__(self, o):
        return np_divide(self, o)

    def __neg__(self):
        return np_negative(self)

    def __eq__(self, o):
        return np_equal(self, o)

    def __ne__(self, o):
        return np_not_equal(self, o)

    def __lt__(self, o):
        return np_less(self, o)

    def __le__(self, o):
        return np_less_equal(self, o)

    def __gt__(self, o):
        return np_greater(self, o)

    def __ge__(self, o):
        return np_greater_equal(self, o)

    def __mod__(self, o):
        return np_mod(self, o)

    __hash__ = None

    def __bool__(self):
        raise ValueError("The truth value of a Series is ambiguous")

    # ---- methods used by pandas_base / cdata
    def isnull(self):
        return self._like([Cell(FALSE, c.null, "b", c.dc, c.kf) for c in self.cells])

    isna = isnull

    def copy(self):
        return self._like(list(self.cells))

    def to_numpy(self):
        return NDArray(list(self.cells))

    def astype(self, t):
        t = t if isinstance(t, str) else getattr(t, "__name__", str(t))
        if t in ("int64", "int"):
            out = []
            for c in self.cells:
                if decide(c.null, (c,)):
                    raise ValueError("cannot convert float NaN to integer")
                if c.kind == "f":
                    # truncation toward zero
                    v = c.val
                    out.append(Cell(FALSE, z3.If(v >= 0, z3.ToInt(v), -z3.ToInt(-v)), "i", c.dc, c.kf))
                elif c.kind in ("i", "b"):
                    out.append(Cell(FALSE, C.num(c), "i", c.dc, c.kf))
                else:
                    raise Unmodelled("astype(int) on strings")
            return self._like(out)
        if t in ("float64", "float"):
            return self._like([C.coerce(c, "f") for c in self.cells])
        if t == "object":
            return self._like(list(self.cells))  # same values in an object array (cells carry no dtype)
        raise Unmodelled(f"astype({t})")

    def combine_first(self, other):
        if not isinstance(other, _Vec) or len(other) != len(self):
            raise Unmodelled("combine_first shape")
        out = []
        for a, b in zip(self.cells, other.cells):
            k = a.kind if z3.is_true(b.null) else (b.kind if z3.is_true(a.null) else C.join_kind(a, b))
            a2, b2 = C.coerce(a, k), C.coerce(b, k)
            out.append(Cell(zand(a.null, b.null), z3.If(a.null, b2.val, a2.val), k, z3.If(a.null, b.dc, a.dc) if not (z3.is_false(a.dc) and z3.is_false(b.dc)) else FALSE,
                            z3.If(a.null, b.kf, a.kf) if not (z3.is_false(a.kf) and z3.is_false(b.kf)) else FALSE))
        return self._like(out)

    def mask(self, cond, other=None):
        """Series.mask(cond, other): other where cond is True, else self (positional; cond/other are same-length vectors or scalars)"""
        if other is None:
            other = null_cell("f")
        for o in (cond, other):
            if isinstance(o, _Vec) and len(o) != len(self):
                raise Unmodelled("mask shape")
        return self._like(_elementwise(_where, cond, other, self).cells)

    def where(self, cond, other=None):
        if other is None:
            other = null_cell("f")
        for o in (cond, other):
            if isinstance(o, _Vec) and len(o) != len(self):
                raise Unmodelled("where shape")
        return self._like(_elementwise(_where, cond, self, other).cells)

    def map(self, value_map, na_action=None):
        if not isinstance(value_map, dict):
            raise Unmodelled("Series.map with non-dict")
        items = list(value_map.items())
        out = []
        for c in self.cells:
            vk = None
            for k, v in items:
                vk = lit(v).kind
                break
            res = null_cell(vk or "f")
            for k, v in reversed(items):
                kc, vc = lit(k), lit(v)
                hit = zand(znot(c.null), C.veq(c, kc))
                vc = C.coerce(vc, res.kind) if vc.kind != res.kind and res.kind == "f" else vc
                if vc.kind != res.kind:
                    res = C.coerce(res, vc.kind) if z3.is_true(res.null) else res
                if vc.kind != res.kind:
                    k2 = C.join_kind(vc, res)
                    vc, res = C.coerce(vc, k2), C.coerce(res, k2)
                res = Cell(z3.If(hit, FALSE, res.null), z3.If(hit, vc.val, res.val), res.kind, c.dc, c.kf)
            out.append(res)
        return self._like(out)

    def agg(self, op, *a):
        return _agg(self.cells, op)

    def sum(self):
        return _agg(self.cells, "sum")

    def max(self):
        return _agg(self.cells, "max")

    def min(self):
        return _agg(self.cells, "min")

    def mean(self):
        return _agg(self.cells, "mean")

    def abs(self):
        return np_abs(self)

    def round(self, *a):
        return np_round(self)

    def __repr__(self):
        return f"{type(self).__name__}({self.cells}, index={self.index})"


class _StrAccessor:
    """Series.str: only slice(start, stop) with concrete non-negative bounds (Python slicing = z3 SubString with clipping)"""

    def __init__(self, s):
        self.s = s

    def slice(self, start=None, stop=None, step=None):
        if step not in (None, 1) or not isinstance(start, int) or not isinstance(stop, int) or isinstance(start, bool) or start < 0 or stop < 0:
            raise Unmodelled("Series.str.slice form")
        out = []
        for c in self.s.cells:
            if c.kind != "s":
                raise Unmodelled("Series.str on non-strings")
            out.append(Cell(c.null, z3.SubString(c.val, z3.IntVal(start), z3.IntVal(max(0, stop - start))), "s", c.dc, c.kf))
        return self.s._like(out)

    def __getattr__(self, name):
        raise Unmodelled(f"Series.str.{name}")


class Series(_Vec):
    def __init__(self, data=None, index=None, name=None, dtype=None):
        if isinstance(data, _Vec):
            _Vec.__init__(self, data.cells, data.index if index is None else index, name or data.name)
            self.gnames, self.gkeys = data.gnames, data.gkeys
        elif data is None:
            _Vec.__init__(self, [], index, name)
        elif isinstance(data, (list, tuple, range)):
            _Vec.__init__(self, list(data), index, name)
        else:
            raise Unmodelled(f"Series({type(data)})")

    def reset_index(self, drop=True, inplace=False):
        if not drop:
            raise Unmodelled("Series.reset_index(drop=False)")
        return Series(list(self.cells))

    @property
    def str(self):
        return _StrAccessor(self)

    @property
    def dt(self):
        raise Unmodelled("Series.dt")


class NDArray(_Vec):
    def __init__(self, cells, index=None, name=None):
        _Vec.__init__(self, cells, None, None)


def unlit(c):
    """a cell holding a concrete constant (control tables, literals) as the python scalar pandas would hand out; symbolic cells stay cells"""
    if not isinstance(c, Cell):
        return c
    if not z3.is_false(c.null):
        return None if z3.is_true(c.null) else c
    v = z3.simplify(c.val) if z3.is_expr(c.val) else c.val
    if c.kind == "s" and z3.is_string_value(v):
        return v.as_string()
    if c.kind == "i" and z3.is_int_value(v):
        return v.as_long()
    if c.kind == "b" and (z3.is_true(v) or z3.is_false(v)):
        return bool(z3.is_true(v))
    if c.kind == "f" and z3.is_rational_value(v):
        return v.numerator_as_long() / v.denominator_as_long()
    return c


def _mask_positions(mask):
    out = []
    for i, c in enumerate(mask.cells):
        if c.kind != "b":
            if z3.is_true(c.null):
                continue
            raise Unmodelled("non-boolean mask")
        if C.decide_true(c, zand(znot(c.null), c.val)):
            out.append(i)
    return out


def _vecs(*args):
    n = None
    typ = NDArray
    idx = None
    for a in args:
        if isinstance(a, _Vec):
            if n is None:
                n = len(a)
            elif len(a) != n:
                raise ValueError("operands could not be broadcast together")
            if isinstance(a, Series):
                if typ is Series and idx != a.index:
                    raise Unmodelled("binary operation on differently indexed Series")
                typ = Series
                idx = a.index
        elif isinstance(a, (list, tuple)):
            if n is None:
                n = len(a)
            elif len(a) != n:
                raise ValueError("operands could not be broadcast together")
    return n, typ, idx


def _cells_of(a, n):
    if isinstance(a, _Vec):
        return a.cells
    if isinstance(a, (list, tuple)):
        return [lit(x) for x in a]
    return [lit(a)] * n


def _elementwise(f, *args):
    n, typ, idx = _vecs(*args)
    if n is None:  # all scalars
        return f(*[lit(a) for a in args])
    cols = [_cells_of(a, n) for a in args]
    out = [f(*[col[i] for col in cols]) for i in range(n)]
    return typ(out, idx) if typ is Series else NDArray(out)


# --------------------------------------------------------------------------------------------------------------- scalar semantics
def _arith(op):
    def f(a, b):
        if a.kind == "s" or b.kind == "s":
            raise Unmodelled("arithmetic on strings")
        dc, kf = C.taint(a, b)
        null = zor(a.null, b.null)
        k = "f" if "f" in (a.kind, b.kind) else "i"
        x, y = (C.real(a), C.real(b)) if k == "f" else (C.num(a), C.num(b))
        if op == "+":
            v = x + y
        elif op == "-":
            v = x - y
        elif op == "*":
            v = x * y
        else:
            raise AssertionError(op)
        return Cell(null, v, k, dc, kf)

    return f


def _divide(a, b):
    if a.kind == "s" or b.kind == "s":
        raise Unmodelled("arithmetic on strings")
    dc, kf = C.taint(a, b)
    x, y = C.real(a), C.real(b)
    null = zor(a.null, b.null)
    # accepted difference: integer / integer (SQL integer division)
    dc = zor(dc, TRUE if (C.is_intlike(a) and C.is_intlike(b)) else FALSE)
    src = kf_src("division_by_zero", zand(znot(null), y == 0, x != 0))
    if z3.is_false(src):
        dc = zor(dc, y == 0)  # finding not listed for this check: division by zero (inf / nan) stays outside the comparison
    else:
        # known finding division_by_zero: x / 0 is +/-inf here (NULL in SQLite); 0 / 0 is NaN, which counts as missing on both sides
        kf = zor(kf, src)
        null = zor(null, zand(y == 0, x == 0))
    return Cell(null, x / z3.If(y == 0, z3.RealVal(1), y), "f", dc, kf)


def _floor_divide(a, b):
    """// : floor of the quotient (numpy.floor_divide); NOT one of the accepted differences.  Division by zero (inf / nan) is outside the value model."""
    if a.kind == "s" or b.kind == "s":
        raise Unmodelled("arithmetic on strings")
    dc, kf = C.taint(a, b)
    y = C.real(b)
    q = C.real(a) / z3.If(y == 0, z3.RealVal(1), y)
    return Cell(zor(a.null, b.null), z3.ToReal(z3.ToInt(q)), "f", zor(dc, y == 0), kf)


def _dc_binary(a, b):
    """%, mod, remainder: destination conventions (accepted difference) -- value never compared"""
    dc, kf = C.taint(a, b)
    k = "f" if "f" in (a.kind, b.kind) else "i"
    return Cell(zor(a.null, b.null), z3.RealVal(0) if k == "f" else z3.IntVal(0), k, TRUE, kf)


def _cmp(op):
    def f(a, b):
        dc, kf = C.taint(a, b)
        anyn = zor(a.null, b.null)
        if op == "==":
            v = zand(znot(anyn), C.veq(a, b)) if not (z3.is_true(a.null) or z3.is_true(b.null)) else FALSE
        elif op == "!=":
            v = zor(anyn, znot(C.veq(a, b))) if not (z3.is_true(a.null) or z3.is_true(b.null)) else TRUE
        else:
            if z3.is_true(a.null) or z3.is_true(b.null):
                v = FALSE
            else:
                core = {"<": lambda: C.lt(a, b), ">": lambda: C.lt(b, a), "<=": lambda: znot(C.lt(b, a)), ">=": lambda: znot(C.lt(a, b))}[op]()
                v = zand(znot(anyn), core)
        # pandas/numpy: a comparison with a missing operand is False (True for !=), SQL: NULL  -> known-finding taint source
        return Cell(FALSE, v, "b", dc, zor(kf, kf_src("cmp_null_operand", anyn)), kfs=(op != "!=" and (z3.is_false(kf))))

    return f


def _boolval(c):
    if c.kind == "b":
        return c.val
    if c.kind in ("i", "f"):
        return C.num(c) != 0
    raise Unmodelled("string used as boolean")


def _logic(op):
    def f(a, b):
        dc, kf = C.taint(a, b)
        anyn = zor(a.null, b.null)
        src = kf_src("logical_null_operand", anyn) if op in ("and", "or") and not z3.is_false(anyn) else FALSE
        if z3.is_false(src):
            for c in (a, b):
                if not z3.is_false(c.null) and decide(c.null, (c,)):
                    raise Unmodelled("logical op on a null boolean")
            x, y = _boolval(a), _boolval(b)
        else:
            # known finding logical_null_operand: numpy.logical_and/or on object arrays apply Python's and/or (None and False -> None,
            # None or False -> False) where SQL / Polars use three-valued logic.  The value is tainted (never compared); its "is TRUE"
            # reading -- all a row filter needs -- agrees in both logics, so kfs stays set.
            kf = zor(kf, src)
            x, y = zand(znot(a.null), _boolval(a)), zand(znot(b.null), _boolval(b))
        v = {"and": lambda: zand(x, y), "or": lambda: zor(x, y), "xor": lambda: z3.Xor(x, y)}[op]()
        safe = op in ("and", "or") and all(c.kfs or z3.is_false(c.kf) for c in (a, b))
        return Cell(FALSE, v, "b", dc, kf, kfs=safe)

    return f


def _unary_num(fn):
    def f(a):
        if a.kind == "s":
            raise Unmodelled("numeric function on string")
        return fn(a)

    return f


def _neg(a):
    return Cell(a.null, -C.num(a), "f" if a.kind == "f" else "i", a.dc, a.kf)


def _abs(a):
    v = C.num(a)
    return Cell(a.null, z3.If(v >= 0, v, -v), "f" if a.kind == "f" else "i", a.dc, a.kf)


def _sign(a):
    v = C.num(a)
    return Cell(a.null, z3.If(v > 0, z3.RealVal(1), z3.If(v < 0, z3.RealVal(-1), z3.RealVal(0))), "f", a.dc, a.kf)


def _floor(a):
    if a.kind != "f":
        return Cell(a.null, C.real(a), "f", a.dc, a.kf)
    return Cell(a.null, z3.ToReal(z3.ToInt(a.val)), "f", a.dc, a.kf)


def _ceil(a):
    if a.kind != "f":
        return Cell(a.null, C.real(a), "f", a.dc, a.kf)
    return Cell(a.null, -z3.ToReal(z3.ToInt(-a.val)), "f", a.dc, a.kf)


def _round_half_even(a):
    if a.kind != "f":
        return Cell(a.null, C.real(a), "f", a.dc, a.kf)
    x = a.val
    fl = z3.ToInt(x)
    frac = x - z3.ToReal(fl)
    half = z3.RealVal(1) / 2
    r = z3.If(frac < half, fl, z3.If(frac > half, fl + 1, z3.If(fl % 2 == 0, fl, fl + 1)))
    # numpy rounds exact ties to even, SQLite away from zero -> known-finding taint source on exact ties
    return Cell(a.null, z3.ToReal(r), "f", a.dc, zor(a.kf, kf_src("round_exact_half", zand(znot(a.null), frac == half))))


_UF = {}


def ufn(name, arity=1):
    """shared uninterpreted function (transcendentals): all front ends use the same symbol"""
    key = (name, arity)
    if key not in _UF:
        _UF[key] = z3.Function("uf_" + name, *([z3.RealSort()] * (arity + 1)))
    return _UF[key]


def _uninterp(name):
    def f(*cs):
        for c in cs:
            if c.kind == "s":
                raise Unmodelled("numeric function on string")
        dc, kf = C.taint(*cs)
        return Cell(zor(*[c.null for c in cs]), ufn(name, len(cs))(*[C.real(c) for c in cs]), "f", dc, kf)

    return f


def _power(a, b):
    dc, kf = C.taint(a, b)
    null = zor(a.null, b.null)
    bv = z3.simplify(C.num(b))
    if z3.is_int_value(bv) and 0 <= bv.as_long() <= 3:
        k = bv.as_long()
        x = C.num(a)
        v = z3.IntVal(1) if z3.is_int(x) else z3.RealVal(1)
        for _ in range(k):
            v = v * x
        return Cell(null, v, "f" if a.kind == "f" else "i", dc, kf)
    return Cell(null, ufn("pow", 2)(C.real(a), C.real(b)), "f", dc, kf)


def _maximum(a, b, propagate=True, want_max=True):
    dc, kf = C.taint(a, b)
    k = C.join_kind(a, b)
    a2, b2 = C.coerce(a, k), C.coerce(b, k)
    pick_a = znot(C.lt(a2, b2)) if want_max else znot(C.lt(b2, a2))
    if propagate:  # numpy.maximum / minimum: a missing operand gives missing
        return Cell(zor(a.null, b.null), z3.If(pick_a, a2.val, b2.val), k, dc, kf)
    # fmax / fmin: ignore a missing operand
    v = z3.If(a.null, b2.val, z3.If(b.null, a2.val, z3.If(pick_a, a2.val, b2.val)))
    return Cell(zand(a.null, b.null), v, k, dc, kf)


def _where(c, a, b):
    dc, kf = C.taint(c, a, b)
    if z3.is_true(a.null) and not z3.is_true(b.null):
        k = b.kind
    elif z3.is_true(b.null) and not z3.is_true(a.null):
        k = a.kind
    else:
        k = C.join_kind(a, b)
    a2, b2 = C.coerce(a, k), C.coerce(b, k)
    t = zand(znot(c.null), _boolval(c))  # None / NaN condition counts as False for object arrays of bools
    return Cell(z3.If(t, a2.null, b2.null), z3.If(t, a2.val, b2.val), k, dc, kf)


def _concat_str(a, b):
    raise Unmodelled("string concatenation")


np_add = functools.partial(_elementwise, _arith("+"))
np_subtract = functools.partial(_elementwise, _arith("-"))
np_multiply = functools.partial(_elementwise, _arith("*"))
np_divide = functools.partial(_elementwise, _divide)
np_floor_divide = functools.partial(_elementwise, _floor_divide)
np_mod = functools.partial(_elementwise, _dc_binary)
np_power = functools.partial(_elementwise, _power)
np_negative = functools.partial(_elementwise, _unary_num(_neg))
np_abs = functools.partial(_elementwise, _unary_num(_abs))
np_sign = functools.partial(_elementwise, _unary_num(_sign))
np_floor = functools.partial(_elementwise, _unary_num(_floor))
np_ceil = functools.partial(_elementwise, _unary_num(_ceil))
np_round = functools.partial(_elementwise, _unary_num(_round_half_even))
np_equal = functools.partial(_elementwise, _cmp("=="))
np_not_equal = functools.partial(_elementwise, _cmp("!="))
np_less = functools.partial(_elementwise, _cmp("<"))
np_less_equal = functools.partial(_elementwise, _cmp("<="))
np_greater = functools.partial(_elementwise, _cmp(">"))
np_greater_equal = functools.partial(_elementwise, _cmp(">="))
np_logical_and = functools.partial(_elementwise, _logic("and"))
np_logical_or = functools.partial(_elementwise, _logic("or"))
np_logical_xor = functools.partial(_elementwise, _logic("xor"))


def np_logical_not(a):
    def f(c):
        if not z3.is_false(c.null) and decide(c.null, (c,)):
            raise Unmodelled("logical_not on null")
        return Cell(FALSE, znot(_boolval(c)), "b", c.dc, c.kf)

    return _elementwise(f, a)


def np_where(cond, a=None, b=None):
    if a is None and b is None:  # numpy.where(mask) -> (indices,)
        return ([i for i in _mask_positions(cond)],)
    r = _elementwise(_where, cond, a, b)
    return NDArray(r.cells) if isinstance(r, _Vec) else r


def np_isin(a, vals):
    vals = [lit(v) for v in list(vals)]

    def f(c):
        hits = [C.veq(c, v) for v in vals if not z3.is_true(v.null)]
        return Cell(FALSE, zand(znot(c.null), zor(*hits)), "b", c.dc, zor(c.kf, kf_src("cmp_null_operand", c.null)), kfs=z3.is_false(c.kf))

    r = _elementwise(f, a)
    return NDArray(r.cells) if isinstance(r, _Vec) else r


def np_isnan(a):
    return _elementwise(lambda c: Cell(FALSE, c.null, "b", c.dc, c.kf), a)


def np_isinf(a):
    return _elementwise(lambda c: Cell(FALSE, C.inf_formula(c), "b", c.dc, c.kf), a)


def np_any(a):
    if isinstance(a, _Vec):
        for c in a.cells:
            if decide(zand(znot(c.null), _boolval(c)), (c,)):
                return True
        return False
    if isinstance(a, Cell):
        return decide(zand(znot(a.null), _boolval(a)), (a,))
    return bool(a)


def np_all(a):
    if isinstance(a, _Vec):
        for c in a.cells:
            if not decide(zand(znot(c.null), _boolval(c)), (c,)):
                return False
        return True
    return bool(a)


def np_asarray(a, dtype=None):
    if isinstance(a, _Vec):
        cells = a.cells
    elif isinstance(a, (list, tuple)):
        cells = [lit(x) for x in a]
    elif isinstance(a, str) and dtype is str:
        return lit(a)  # 0-d string array: broadcasts like a scalar
    else:
        raise Unmodelled("asarray of scalar")
    if dtype is float:
        cells = [C.coerce(c, "f") for c in cells]
    elif dtype is str:
        def tostr(c):
            if c.kind != "s":
                raise Unmodelled("asarray(dtype=str) of a non-string column (number formatting)")
            # numpy turns a missing entry of an object column into the TEXT 'nan' ('None' for None): no longer missing
            return Cell(FALSE, z3.If(c.null, z3.StringVal("nan"), c.val) if not z3.is_false(c.null) else c.val, "s", c.dc, c.kf)

        cells = [tostr(c) for c in cells]
    return NDArray(cells)


def np_array(a, dtype=None):
    return np_asarray(a, dtype)


def np_maximum(a, b):
    return _elementwise(lambda x, y: _maximum(x, y, True, True), a, b)


def np_minimum(a, b):
    return _elementwise(lambda x, y: _maximum(x, y, True, False), a, b)


def np_fmax(a, b):
    return _elementwise(lambda x, y: _maximum(x, y, False, True), a, b)


def np_fmin(a, b):
    return _elementwise(lambda x, y: _maximum(x, y, False, False), a, b)


class _Char:
    @staticmethod
    def add(a, b):
        def cat(x, y):
            if x.kind != "s" or y.kind != "s":
                raise Unmodelled("numpy.char.add on non-strings")
            dc, kf = C.taint(x, y)
            return Cell(zor(x.null, y.null), z3.Concat(x.val, y.val), "s", dc, kf)

        r = _elementwise(cat, a, b)
        return NDArray(r.cells) if isinstance(r, _Vec) else r


class _Random:
    @staticmethod
    def uniform(*a, **k):
        raise Unmodelled("random numbers are outside every claim")


def make_numpy():
    import numpy as real_np

    m = types.ModuleType("symnp")
    d = {
        "add": np_add, "subtract": np_subtract, "multiply": np_multiply, "divide": np_divide, "floor_divide": np_floor_divide,
        "mod": np_mod, "remainder": np_mod, "power": np_power, "negative": np_negative, "abs": np_abs, "absolute": np_abs, "fabs": np_abs,
        "sign": np_sign, "floor": np_floor, "ceil": np_ceil, "round": np_round, "around": None, "rint": np_round,
        "equal": np_equal, "not_equal": np_not_equal, "less": np_less, "less_equal": np_less_equal, "greater": np_greater,
        "greater_equal": np_greater_equal, "logical_and": np_logical_and, "logical_or": np_logical_or, "logical_xor": np_logical_xor,
        "logical_not": np_logical_not, "where": np_where, "isin": np_isin, "isnan": np_isnan, "isinf": np_isinf, "any": np_any,
        "all": np_all, "asarray": np_asarray, "array": np_array, "maximum": np_maximum, "minimum": np_minimum, "fmax": np_fmax,
        "fmin": np_fmin, "char": _Char, "random": _Random,
    }
    del d["around"]
    for k, v in d.items():
        setattr(m, k, v)
    for name in ("sin cos tan arcsin arccos arctan sinh cosh tanh arcsinh arccosh arctanh exp expm1 log log10 log1p log2 sqrt "
                 "square cbrt degrees radians").split():
        setattr(m, name, functools.partial(_elementwise, _uninterp(name)))
    m.arctan2 = functools.partial(_elementwise, _uninterp("arctan2"))
    m.nan = float("nan")
    m.inf = float("inf")
    # type objects the real code mentions (data_algebra.util type tables are not used through the shim)
    for t in ("int64", "float64", "bool_", "str_", "generic", "ndarray", "number", "integer", "floating"):
        setattr(m, t, getattr(real_np, t))

    def _stub(name):
        def f(*a, **k):
            raise Unmodelled(f"numpy.{name}")

        return f

    # every other numpy function exists (the executor falls back to numpy.__dict__[op_name]) but is outside the model
    for name in dir(real_np):
        if not name.startswith("_") and not hasattr(m, name) and callable(getattr(real_np, name, None)) and not isinstance(getattr(real_np, name), type):
            setattr(m, name, _stub(name))
    return m


# --------------------------------------------------------------------------------------------------------------- aggregation
def _agg(cells, op, *args):
    """aggregate a list of cells pandas-style -> Cell"""
    n = len(cells)
    dc, kf = C.taint(*cells) if cells else (FALSE, FALSE)
    if op in ("size",):
        return Cell(FALSE, z3.IntVal(n), "i")
    if op == "count":
        # accepted difference: count over a group with no non-null value (0 here, NULL where an engine sums nothing)
        nothing = zand(*[c.null for c in cells]) if cells else TRUE
        return Cell(FALSE, z3.Sum([z3.If(c.null, 0, 1) for c in cells]) if cells else z3.IntVal(0), "i", zor(dc, nothing), kf)
    if op == "nunique":
        # number of distinct non-null values
        terms = []
        for i, c in enumerate(cells):
            first = zand(znot(c.null), *[znot(zand(znot(d.null), C.veq(c, d))) for d in cells[:i]])
            terms.append(z3.If(first, 1, 0))
        return Cell(FALSE, z3.Sum(terms) if terms else z3.IntVal(0), "i", dc, kf)
    if n and all(c.kind == "s" for c in cells) and op not in ("max", "min", "first", "last", "any_value"):
        raise Unmodelled(f"{op} of strings")
    allnull = zand(*[c.null for c in cells]) if cells else TRUE
    if op == "sum":
        k = "f" if any(c.kind == "f" for c in cells) else "i"
        zero = z3.RealVal(0) if k == "f" else z3.IntVal(0)
        v = z3.Sum([z3.If(c.null, zero, C.real(c) if k == "f" else C.num(c)) for c in cells]) if cells else zero
        # accepted difference: sum over a group with no non-null value (pandas 0, SQL NULL)
        return Cell(FALSE, v, k, zor(dc, allnull), kf)
    if op == "prod":
        raise Unmodelled("prod (nonlinear)")
    if op == "mean":
        if not cells:
            return null_cell("f")
        s = z3.Sum([z3.If(c.null, z3.RealVal(0), C.real(c)) for c in cells])
        cnt = z3.Sum([z3.If(c.null, 0, 1) for c in cells])
        v = s
        for k in range(2, n + 1):
            v = z3.If(cnt == k, s / k, v)
        return Cell(allnull, v, "f", dc, kf)
    if op in ("max", "min"):
        if not cells:
            return null_cell("f")
        k = cells[0].kind
        for c in cells[1:]:
            k = C.join_kind(Cell(FALSE, None, k), c) if c.kind != k else k
        cs = [C.coerce(c, k) for c in cells]
        bn, bv = cs[0].null, cs[0].val
        for c in cs[1:]:
            better = C.lt(Cell(FALSE, bv, k), c) if op == "max" else C.lt(c, Cell(FALSE, bv, k))
            take = zand(znot(c.null), zor(bn, better))
            bv = z3.If(take, c.val, bv)
            bn = zand(bn, c.null)
        return Cell(bn, bv, k, dc, kf)
    if op in ("first", "any_value"):  # pandas groupby first(): first non-null
        if not cells:
            return null_cell("f")
        k = cells[0].kind
        res = null_cell(k)
        for c in reversed(cells):
            c2 = C.coerce(c, k) if c.kind != k else c
            res = Cell(z3.If(c.null, res.null, FALSE), z3.If(c.null, res.val, c2.val), k)
        if op == "first" and len(cells) > 1:
            # known finding first_last_null_value: pandas skips a missing first/last value, Polars / SQL FIRST_VALUE do not
            kf = zor(kf, kf_src("first_last_null_value", zand(cells[0].null, znot(res.null))))
        return Cell(res.null, res.val, k, dc, kf)
    if op == "last":
        return _agg(list(reversed(cells)), "first")
    if op in ("any", "all"):
        # pandas groupby any()/all() skip missing values (skipna): any = some present value is True, all = every present value is True
        vals = [zand(znot(c.null), _boolval(c)) if op == "any" else zor(c.null, _boolval(c)) for c in cells]
        return Cell(FALSE, (zor(*vals) if op == "any" else zand(*vals)) if vals else z3.BoolVal(op == "all"), "b", dc, kf)
    if op in ("median", "var"):
        # missing values are skipped; which cells are present (and, for the median, their order) are structural decisions: forked on
        if any(c.kind == "s" for c in cells):
            raise Unmodelled(f"{op} of strings")
        vals = [C.real(c) for c in cells if not C.is_null_py(c)]
        return _var_or_median(op, vals, dc, kf)
    if op == "std":
        raise Unmodelled("std (square root: outside the polynomial fragment)")
    raise Unmodelled(f"aggregation {op}")


def _var_or_median(op, vals, dc=FALSE, kf=FALSE):
    """sample variance (ddof=1) / median of a list of z3 reals already known to be present; null below 2 (variance) / 1 (median) values"""
    m = len(vals)
    if op == "var":
        if m < 2:
            return Cell(TRUE, z3.RealVal(0), "f", dc, kf)
        mean = z3.Sum(vals) / m
        return Cell(FALSE, z3.Sum([(v - mean) * (v - mean) for v in vals]) / (m - 1), "f", dc, kf)
    if m < 1:
        return Cell(TRUE, z3.RealVal(0), "f", dc, kf)
    order = sorted(range(m), key=functools.cmp_to_key(lambda i, j: 0 if i == j else (-1 if B(vals[i] <= vals[j]) else 1)))
    s = [vals[i] for i in order]
    return Cell(FALSE, s[m // 2] if m % 2 else (s[m // 2 - 1] + s[m // 2]) / 2, "f", dc, kf)


def _transform(cells, op, *args):
    """groupby.transform(op) on the cells of one group, in frame order -> list of cells"""
    n = len(cells)
    if op in ("sum", "mean", "max", "min", "count", "size", "nunique", "first", "last", "any", "all", "median", "std", "var", "any_value"):
        v = _agg(cells, op)
        if op == "sum":
            pass
        return [v] * n
    if op == "cumsum":
        k = "f" if any(c.kind == "f" for c in cells) else "i"
        zero = z3.RealVal(0) if k == "f" else z3.IntVal(0)
        acc = zero
        out = []
        seen_null = FALSE
        for c in cells:
            acc = acc + z3.If(c.null, zero, C.real(c) if k == "f" else C.num(c))
            # pandas: NaN at a null position (running total continues); SQL SUM() OVER gives the running total there
            out.append(Cell(c.null, acc, k, c.dc, zor(c.kf, kf_src("cumulative_null_value", c.null))))
        return out
    if op in ("cummax", "cummin"):
        out = []
        bn, bv, k = TRUE, None, None
        for c in cells:
            if k is None:
                k = c.kind
                bv = c.val
                bn = c.null
            else:
                c2 = C.coerce(c, k) if c.kind != k else c
                better = C.lt(Cell(FALSE, bv, k), c2) if op == "cummax" else C.lt(c2, Cell(FALSE, bv, k))
                take = zand(znot(c.null), zor(bn, better))
                bv = z3.If(take, c2.val, bv)
                bn = zand(bn, c.null)
            out.append(Cell(zor(c.null, bn), bv, k, c.dc, zor(c.kf, kf_src("cumulative_null_value", c.null))))
        return out
    if op == "cumprod":
        raise Unmodelled("cumprod (nonlinear)")
    if op == "cumcount":
        # SeriesGroupBy.transform('cumcount') : position within group
        return [Cell(FALSE, z3.IntVal(i), "i") for i in range(n)]
    if op == "shift":
        p = args[0] if args else 1
        if p is None:
            p = 1
        out = []
        for i in range(n):
            j = i - p
            out.append(cells[j] if 0 <= j < n else null_cell(cells[i].kind))
        return out
    if op == "rank":
        # average rank among non-null values; null -> null
        out = []
        for c in cells:
            less = z3.Sum([z3.If(zand(znot(d.null), C.lt(d, c)), 1, 0) for d in cells])
            eq = z3.Sum([z3.If(zand(znot(d.null), C.veq(d, c)), 1, 0) for d in cells])
            # mean of positions less+1 .. less+eq  = less + (eq+1)/2
            out.append(Cell(c.null, z3.ToReal(less) + (z3.ToReal(eq) + 1) / 2, "f", c.dc, c.kf))
        return out
    if op == "ffill" or op == "bfill":
        seq = cells if op == "ffill" else list(reversed(cells))
        out = []
        last = None
        for c in seq:
            if last is None:
                cur = c
            else:
                cur = Cell(zand(c.null, last.null), z3.If(c.null, last.val, c.val), c.kind, c.dc, c.kf)
            out.append(cur)
            last = cur
        return out if op == "ffill" else list(reversed(out))
    raise Unmodelled(f"transform {op}")


_ORDERED_OPS = {"cumsum", "cummax", "cummin", "cumprod", "cumcount", "shift", "first", "last", "ffill", "bfill", "any_value"}


# --------------------------------------------------------------------------------------------------------------- group by
class GroupBy:
    def __init__(self, df, by, observed=True, dropna=True, sort=True):
        self.df = df
        self.by = [by] if isinstance(by, str) else list(by)
        for c in self.by:
            if c not in df._cols:
                raise KeyError(c)
        groups, reps = [], []
        self.dropped = []
        for i in range(df._n):
            key = [df._cols[c][i] for c in self.by]
            if any(decide(k.null, (k,)) for k in key):
                if dropna:
                    self.dropped.append(i)
                    continue
            for gi, r in enumerate(reps):
                if all(C.same_py(a, b) for a, b in zip(key, r)):
                    groups[gi].append(i)
                    break
            else:
                reps.append(key)
                groups.append([i])
        # pandas sorts groups by key; result row order is compared as a multiset, so first-appearance order is kept (stated in DESIGN)
        self.groups = groups
        self.reps = [tuple(r) for r in reps]

    def size(self):
        s = Series([Cell(FALSE, z3.IntVal(len(g)), "i") for g in self.groups])
        s.gnames, s.gkeys = self.by, self.reps
        return _IntList([len(g) for g in self.groups], s)

    def cumcount(self):
        out = [null_cell("i")] * self.df._n
        for g in self.groups:
            for k, i in enumerate(g):
                out[i] = Cell(FALSE, z3.IntVal(k), "i")
        if (getattr(self.df, "_ties", False) or getattr(self.df, "_nullkey", False)) and not ALLOW_WINDOW_TIES[0]:
            raise OutsideClaim("window order is not total (tie or null order key)")
        return Series(out, self.df.index)

    def ngroup(self):
        raise Unmodelled("ngroup depends on sorted group order")

    def __getitem__(self, c):
        if isinstance(c, str):
            if c not in self.df._cols:
                raise KeyError(c)
            return SeriesGroupBy(self, c)
        raise Unmodelled("DataFrameGroupBy[list]")

    def __iter__(self):
        for g, r in zip(self.groups, self.reps):
            yield (r if len(r) > 1 else r[0]), self.df._take(g)


class _IntList(list):
    """result of groupby().size(): behaves as a list of python ints (max(), iteration) and as a Series for frame building"""

    def __init__(self, ints, series):
        list.__init__(self, ints)
        self.series = series


class SeriesGroupBy:
    def __init__(self, gb, col):
        self.gb = gb
        self.col = col

    def agg(self, op, *a):
        col = self.gb.df._cols[self.col]
        vals = [_agg([col[i] for i in g], op) for g in self.gb.groups]
        s = Series(vals)
        s.gnames, s.gkeys = self.gb.by, self.gb.reps
        return s

    def transform(self, op, *args):
        col = self.gb.df._cols[self.col]
        if op in _ORDERED_OPS and (getattr(self.gb.df, "_ties", False) or getattr(self.gb.df, "_nullkey", False)) and not ALLOW_WINDOW_TIES[0]:
            raise OutsideClaim("window order is not total (tie or null order key)")
        out = [None] * self.gb.df._n
        for g in self.gb.groups:
            res = _transform([col[i] for i in g], op, *args)
            for i, r in zip(g, res):
                out[i] = r
        for i in self.gb.dropped:
            # rows whose partition key is null are dropped by groupby (dropna default): NaN result
            out[i] = Cell(TRUE, col[i].val, col[i].kind if op not in ("size", "count") else "i", FALSE, FALSE)
        out = [o if o is not None else null_cell("f") for o in out]
        return Series(out, self.gb.df.index)


# --------------------------------------------------------------------------------------------------------------- data frame
def _cmp_rows(colsA, i, colsB, j, asc, flags=None):
    """three-way comparison of row i vs j under pandas sort rules (nulls last regardless of direction)"""
    for ca, cb, a in zip(colsA, colsB, asc):
        x, y = ca[i], cb[j]
        xn, yn = decide(x.null, (x,)), decide(y.null, (y,))
        if flags is not None and (xn or yn):
            flags["nullkey"] = True
        if xn and yn:
            continue
        if xn:
            return 1
        if yn:
            return -1
        if decide(C.veq(x, y), (x, y)):
            continue
        r = -1 if decide(C.lt(x, y), (x, y)) else 1
        return r if a else -r
    return 0


class _Loc:
    def __init__(self, df):
        self.df = df

    def _cols(self, cols):
        df = self.df
        if isinstance(cols, slice):
            return list(df._cols)
        if isinstance(cols, str):
            return cols
        return list(cols)

    def __getitem__(self, key):
        df = self.df
        if not isinstance(key, tuple):
            raise Unmodelled("loc[rows]")
        rows, cols = key
        cols = self._cols(cols)
        if isinstance(cols, list):
            for c in cols:
                if c not in df._cols:
                    raise KeyError(c)
        if isinstance(rows, slice):
            if rows != slice(None):
                raise Unmodelled("loc slice")
            r = list(range(df._n))
        elif isinstance(rows, _Vec):
            if len(rows) != df._n:
                raise Unmodelled("mask length")
            r = _mask_positions(rows)
        elif isinstance(rows, list):
            r = []
            for l in rows:
                hits = [i for i, x in enumerate(df.index) if x == l]
                if not hits:
                    raise KeyError(l)
                r.extend(hits)
        elif isinstance(rows, int):
            hits = [i for i, x in enumerate(df.index) if x == rows]
            if len(hits) != 1:
                raise Unmodelled("loc[label] missing/duplicate")
            if isinstance(cols, str):
                return unlit(df._cols[cols][hits[0]])
            raise Unmodelled("loc[int, list]")
        else:
            raise Unmodelled(f"loc rows {type(rows)}")
        if isinstance(cols, str):
            return Series([df._cols[cols][i] for i in r], [df.index[i] for i in r], name=cols)
        return df._take(r, cols)

    def __setitem__(self, key, value):
        df = self.df
        rows, col = key
        df._note_mutation("loc.__setitem__")
        if isinstance(rows, slice) and rows == slice(None):
            df[col] = value
            return
        if isinstance(rows, _Vec) and isinstance(col, str):
            pos = _mask_positions(rows)
            if isinstance(value, _Vec):
                if isinstance(value, Series):
                    vm = {}
                    for l, c in zip(value.index, value.cells):
                        if l in vm:
                            raise Unmodelled("duplicate labels in aligned assignment")
                        vm[l] = c
                    for i in pos:
                        if df.index[i] not in vm:
                            raise Unmodelled("label missing in aligned assignment")
                        df._cols[col] = list(df._cols[col])
                    newc = list(df._cols[col])
                    for i in pos:
                        newc[i] = vm[df.index[i]]
                    df._cols[col] = newc
                else:
                    if len(value) != len(pos):
                        raise ValueError("shape mismatch")
                    newc = list(df._cols[col])
                    for i, v in zip(pos, value.cells):
                        newc[i] = v
                    df._cols[col] = newc
            else:
                newc = list(df._cols[col])
                for i in pos:
                    newc[i] = lit(value, newc[i].kind)
                df._cols[col] = newc
            return
        raise Unmodelled("loc assignment form")


class _ILoc:
    def __init__(self, df):
        self.df = df

    def __getitem__(self, key):
        df = self.df
        rows, cols = key
        if isinstance(rows, int) and isinstance(cols, int):
            return unlit(df._cols[list(df._cols)[cols]][rows])
        if isinstance(rows, (range, list)):
            r = list(rows)
            adj = getattr(df, "_adj_ties", None)
            if adj and r == list(range(len(r))) and 0 < len(r) < df._n and adj[len(r) - 1]:
                raise OutsideClaim("row limit cuts through rows tied in the sort order")
        elif isinstance(rows, slice):
            r = list(range(df._n))[rows]
        else:
            raise Unmodelled("iloc rows")
        if isinstance(cols, slice):
            cs = list(df._cols)[cols]
        else:
            raise Unmodelled("iloc cols")
        return df._take(r, cs)


class _Columns(list):
    """frame.columns: a list of names (pandas Index used only as an iterable / membership / len here)"""

    def tolist(self):
        return list(self)


class DataFrame:
    def __init__(self, data=None, index=None, columns=None, _owner=None):
        self._cols = {}
        self._owner = _owner  # label of a caller-owned input frame (mutation tracking)
        gkeys = None
        n = None
        idx = None
        if data is None:
            data = {}
        if isinstance(data, DataFrame):
            for k, v in data._cols.items():
                self._cols[k] = list(v)
            n = data._n
            idx = list(data.index)
        elif isinstance(data, dict):
            for k, v in data.items():
                if isinstance(v, _IntList):
                    v = v.series
                if isinstance(v, _Vec):
                    if v.gnames is not None and v.gkeys is not None:
                        gkeys = (v.gnames, v.gkeys)
                    if isinstance(v, Series) and v.gnames is None:
                        if idx is None:
                            idx = list(v.index)
                        elif idx != list(v.index):
                            raise Unmodelled("DataFrame from differently indexed Series")
                    cells = list(v.cells)
                elif isinstance(v, (list, tuple, range)):
                    cells = [lit(c) for c in v]
                else:
                    raise Unmodelled(f"DataFrame column from {type(v)}")
                if n is None:
                    n = len(cells)
                elif n != len(cells):
                    raise ValueError("All arrays must be of the same length")
                self._cols[k] = cells
        else:
            # a real pandas frame (control tables in cdata): concrete cells
            try:
                import pandas as real_pd

                if isinstance(data, real_pd.DataFrame):
                    for k in data.columns:
                        self._cols[k] = [lit(None if (x is None or x != x) else x) for x in data[k].tolist()]
                    n = data.shape[0]
                else:
                    raise Unmodelled(f"DataFrame({type(data)})")
            except ImportError:
                raise Unmodelled(f"DataFrame({type(data)})")
        if n is None:
            n = len(index) if index is not None else 0
        self._n = n
        if index is not None:
            index = list(index)
            if len(index) != n and self._cols:
                raise ValueError("index length mismatch")
            self.index = index
            self._n = len(index) if not self._cols else n
        elif idx is not None and len(idx) == n:
            self.index = idx
        else:
            self.index = list(range(n))
        self._gnames = None
        self._gkeys = None
        if gkeys is not None:
            self._gnames, self._gkeys = gkeys

    # ---- bookkeeping
    def _note_mutation(self, what):
        if self._owner is not None:
            MUTATIONS.append((self._owner, what))

    def _take(self, rows, cols=None):
        rows = list(rows)
        cols = list(self._cols) if cols is None else list(cols)
        r = DataFrame({c: [self._cols[c][i] for i in rows] for c in cols}, index=[self.index[i] for i in rows])
        if not cols:
            r._n = len(rows)
        return r

    @property
    def columns(self):
        return _Columns(self._cols.keys())

    @columns.setter
    def columns(self, names):
        names = [unlit(x) for x in names]
        if any(isinstance(x, Cell) for x in names):
            raise Unmodelled("symbolic value used as a column name")
        if len(names) != len(self._cols):
            raise ValueError("Length mismatch")
        self._note_mutation("columns=")
        vals = list(self._cols.values())
        if len(set(names)) != len(names):
            raise Unmodelled("duplicate column names")
        self._cols = dict(zip(names, vals))

    @property
    def shape(self):
        return (self._n, len(self._cols))

    @property
    def loc(self):
        return _Loc(self)

    @property
    def iloc(self):
        return _ILoc(self)

    def __len__(self):
        return self._n

    def __contains__(self, k):
        return k in self._cols

    def __getitem__(self, k):
        if isinstance(k, str):
            if k not in self._cols:
                raise KeyError(k)
            return Series(list(self._cols[k]), index=self.index, name=k)
        if isinstance(k, _Vec):
            return self._take(_mask_positions(k))
        k = list(k)
        for c in k:
            if c not in self._cols:
                raise KeyError(c)
        if len(set(k)) != len(k):
            raise Unmodelled("duplicate column selection")
        return self._take(range(self._n), k)

    def __setitem__(self, k, v):
        self._note_mutation("__setitem__")
        if not isinstance(k, str):
            raise Unmodelled("frame[list] = ...")
        if isinstance(v, _IntList):
            v = v.series
        if isinstance(v, Series):
            if list(v.index) == list(self.index):
                cells = list(v.cells)
            else:
                if len(set(v.index)) != len(v.index):
                    raise ValueError("cannot reindex on an axis with duplicate labels")
                vm = dict(zip(v.index, v.cells))
                kind = v.cells[0].kind if v.cells else "f"
                cells = [vm.get(l, null_cell(kind)) for l in self.index]
        elif isinstance(v, NDArray):
            if len(v) != self._n:
                raise ValueError("Length of values does not match length of index")
            cells = list(v.cells)
        elif isinstance(v, (list, tuple, range)):
            if len(v) != self._n:
                raise ValueError("Length of values does not match length of index")
            cells = [lit(c) for c in v]
        elif isinstance(v, _IndexView):
            cells = [lit(x) for x in v.labels]
        else:
            cells = [lit(v)] * self._n
        self._cols[k] = cells

    def __delitem__(self, k):
        self._note_mutation("__delitem__")
        del self._cols[k]

    def copy(self):
        r = self._take(range(self._n))
        r._n = self._n
        return r

    def reset_index(self, drop=True, inplace=False):
        if inplace:
            self._note_mutation("reset_index(inplace)")
            tgt = self
        else:
            tgt = self._take(range(self._n))
            tgt._n = self._n
            tgt._gnames, tgt._gkeys = self._gnames, self._gkeys
            tgt._ties, tgt._nullkey = getattr(self, "_ties", False), getattr(self, "_nullkey", False)
        if (not drop) and tgt._gnames is not None:
            new = {}
            for j, nm in enumerate(tgt._gnames):
                new[nm] = [kv[j] for kv in tgt._gkeys]
            for k, v in tgt._cols.items():
                if k in new:
                    raise ValueError(f"cannot insert {k}, already exists")
                new[k] = v
            tgt._cols = new
        elif not drop:
            raise Unmodelled("reset_index(drop=False) on a plain index")
        tgt._gnames = tgt._gkeys = None
        tgt.index = list(range(tgt._n))
        return None if inplace else tgt

    def sort_values(self, by, ascending=True, inplace=False, **kw):
        ignore_index = kw.get("ignore_index", False)
        by = [by] if isinstance(by, str) else list(by)
        for c in by:
            if c not in self._cols:
                raise KeyError(c)
        asc = [ascending] * len(by) if isinstance(ascending, bool) else list(ascending)
        if len(asc) != len(by):
            raise ValueError("Length of ascending != length of by")
        cols = [self._cols[c] for c in by]
        flags = {"ties": False, "nullkey": False}

        window_sort = "ignore_index" not in kw and not ignore_index  # pandas_base._extend_step sorts partition+order columns this way

        def cmp(i, j):
            r0 = _cmp_rows(cols, i, cols, j, asc, flags)
            if r0 == 0 and i != j:
                flags["ties"] = True
                if not window_sort:
                    ORDER_SORT_TIES[0] = True
                if window_sort and not ALLOW_WINDOW_TIES[0]:
                    # a tie on partition + order columns: the window order is not total (outside C01/C18/C27); stop exploring orders
                    raise OutsideClaim("window order is not total (tie)")
            return r0

        order = sorted(range(self._n), key=functools.cmp_to_key(cmp))  # stable
        r = self._take(order)
        r._n = self._n
        r._ties = flags["ties"] or getattr(self, "_ties", False)
        # rows tied with their successor in the sorted order (decisions are cached: no new forks); a later row limit that cuts
        # between tied rows is not determined by the order (C18: "exactly the first `limit` rows of that order")
        r._adj_ties = [_cmp_rows(cols, order[p], cols, order[p + 1], asc) == 0 for p in range(len(order) - 1)] if flags["ties"] else None
        r._nullkey = False
        if ignore_index:
            r.index = list(range(r._n))
        if inplace:
            raise Unmodelled("sort_values(inplace=True)")
        return r

    def groupby(self, by, observed=True, dropna=True, sort=True, **kw):
        return GroupBy(self, by, observed=observed, dropna=dropna, sort=sort)

    def drop(self, labels=None, axis=0, inplace=False, columns=None):
        if columns is not None:
            labels, axis = columns, 1
        if axis != 1:
            raise Unmodelled("drop rows")
        cs = [labels] if isinstance(labels, str) else list(labels)
        for c in cs:
            if c not in self._cols:
                raise KeyError(c)
        if inplace:
            self._note_mutation("drop(inplace)")
            for c in cs:
                del self._cols[c]
            return None
        r = self._take(range(self._n), [k for k in self._cols if k not in cs])
        r._n = self._n
        return r

    def rename(self, columns=None, **kw):
        if columns is None:
            raise Unmodelled("rename without columns=")
        names = [columns.get(k, k) for k in self._cols]
        if len(set(names)) != len(names):
            raise Unmodelled("rename produces duplicate column names")
        r = DataFrame(dict(zip(names, [list(v) for v in self._cols.values()])), index=self.index)
        r._n = self._n
        return r

    def head(self, n=5):
        return self._take(range(min(n, self._n)))

    def isnull(self):
        r = DataFrame({k: [Cell(FALSE, c.null, "b", c.dc, c.kf) for c in v] for k, v in self._cols.items()}, index=self._index)
        r._n = self._n
        return r

    isna = isnull

    def _rowwise(self, axis, how):
        if axis not in (1, "columns"):
            raise Unmodelled("DataFrame.any/all along rows")
        out = []
        for i in range(self._n):
            vals = [_boolval(v[i]) for v in self._cols.values()]
            out.append(Cell(FALSE, (zor(*vals) if how == "any" else zand(*vals)) if vals else z3.BoolVal(how == "all"), "b"))
        return Series(out, self._index)

    def any(self, axis=0):
        return self._rowwise(axis, "any")

    def all(self, axis=0):
        return self._rowwise(axis, "all")

    def merge(self, right, on=None, how="inner", **kw):
        on = [on] if isinstance(on, str) else list(on)
        return merge(self, right, how=how, left_on=on, right_on=on)

    def equals(self, other):
        raise Unmodelled("DataFrame.equals")

    def __repr__(self):
        return "SymDF(n=%d, %s)" % (self._n, {k: v for k, v in self._cols.items()})


class _IndexView:
    def __init__(self, labels):
        self.labels = list(labels)

    def __iter__(self):
        return iter(self.labels)

    def __len__(self):
        return len(self.labels)


def _get_index(self):
    return self._index


def _set_index(self, v):
    self._index = list(v.labels) if isinstance(v, _IndexView) else list(v)


class _IndexList(list):
    """frame.index: a list of concrete labels"""

    @property
    def is_unique(self):
        return len(set(self)) == len(self)

    def equals(self, other):
        return list(self) == list(other)


class Index(_IndexList):
    pass


class RangeIndex(_IndexList):
    """labels forming an arithmetic progression (what pandas stores as a RangeIndex): default, offset, strided or reversed ranges"""

    def __init__(self, labels):
        _IndexList.__init__(self, labels)
        self.start = labels[0] if labels else 0
        self.step = (labels[1] - labels[0]) if len(labels) > 1 else 1
        self.stop = self.start + self.step * len(labels)


def _index_object(labels):
    labels = list(labels)
    if all(isinstance(l, int) and not isinstance(l, bool) for l in labels):
        if len(labels) < 2:
            if not labels or labels[0] == 0:
                return RangeIndex(labels)
        else:
            step = labels[1] - labels[0]
            if step != 0 and all(labels[i + 1] - labels[i] == step for i in range(len(labels) - 1)):
                return RangeIndex(labels)
    return Index(labels)


# expose frame.index so that `subframe["c"] = subframe.index` works (labels become concrete int cells)
DataFrame.index = property(lambda self: _index_object(self._index), _set_index)


def concat(frames, axis=0, ignore_index=False, sort=False):
    frames = list(frames)
    if axis == 1:
        d = {}
        n = None
        for f in frames:
            if isinstance(f, Series):
                raise Unmodelled("concat of Series")
            if n is None:
                n = f._n
            elif f._n != n:
                raise Unmodelled("concat(axis=1) of frames with different row counts (index alignment)")
            perm = None
            if list(f.index) != list(frames[0].index):
                # pandas aligns the frames BY INDEX LABEL (outer join on the index); with the same set of unique labels in another order the rows
                # of this frame are re-ordered to the first frame's label order (sort=False keeps the order of appearance)
                a, b = list(frames[0].index), list(f.index)
                if len(set(a)) != len(a) or len(set(b)) != len(b) or set(a) != set(b):
                    raise Unmodelled("concat(axis=1) of frames whose indexes are not permutations of each other")
                perm = [b.index(lab) for lab in a]
            for k, v in f._cols.items():
                if k in d:
                    raise Unmodelled("concat(axis=1) duplicate column")
                d[k] = list(v) if perm is None else [v[i] for i in perm]
        r = DataFrame(d, index=frames[0].index)
        r._n = n or 0
        return r
    cols = list(frames[0]._cols)
    allc = list(cols)
    for f in frames[1:]:
        for c in f._cols:
            if c not in allc:
                allc.append(c)
    out = {}
    for c in allc:
        cells = []
        kind = next((f._cols[c][0].kind for f in frames if c in f._cols and f._n), "f")
        for f in frames:
            cells += list(f._cols[c]) if c in f._cols else [null_cell(kind)] * f._n
        out[c] = cells
    n = sum(f._n for f in frames)
    idx = list(range(n)) if ignore_index else sum([list(f.index) for f in frames], [])
    r = DataFrame(out, index=idx)
    r._n = n
    return r


def merge(left, right, how="inner", left_on=None, right_on=None, on=None, sort=False, suffixes=("_x", "_y")):
    if on is not None:
        left_on = right_on = [on] if isinstance(on, str) else list(on)
    left_on = [left_on] if isinstance(left_on, str) else list(left_on)
    right_on = [right_on] if isinstance(right_on, str) else list(right_on)
    for c in left_on:
        if c not in left._cols:
            raise KeyError(c)
    for c in right_on:
        if c not in right._cols:
            raise KeyError(c)
    if how == "cross":
        raise Unmodelled("merge(how=cross)")
    pairs = []
    rmatched = set()
    for i in range(left._n):
        for j in range(right._n):
            ok = True
            for a, b in zip(left_on, right_on):
                x, y = left._cols[a][i], right._cols[b][j]
                # pandas: NaN keys match NaN keys
                if not C.same_py(x, y):
                    ok = False
                    break
                if not z3.is_false(x.null) and decide(x.null, (x,)):
                    forksym.eng().event("merge:null_key_pair")
            if ok:
                pairs.append((i, j))
                rmatched.add(j)
    rows = []
    if how == "inner":
        rows = pairs
    elif how == "left":
        for i in range(left._n):
            ps = [p for p in pairs if p[0] == i]
            rows += ps if ps else [(i, None)]
    elif how == "right":
        for j in range(right._n):
            ps = [p for p in pairs if p[1] == j]
            rows += ps if ps else [(None, j)]
    elif how == "outer":
        for i in range(left._n):
            ps = [p for p in pairs if p[0] == i]
            rows += ps if ps else [(i, None)]
        rows += [(None, j) for j in range(right._n) if j not in rmatched]
    else:
        raise ValueError(f"do not recognize join method {how}")
    samekeys = [a for a, b in zip(left_on, right_on) if a == b]
    out = {}

    def put(name, cells):
        if name in out:
            raise Unmodelled(f"merge produces duplicate column {name}")
        out[name] = cells

    for c in left._cols:
        kind = left._cols[c][0].kind if left._n else (right._cols[c][0].kind if c in right._cols and right._n else "f")
        if c in samekeys:
            put(c, [left._cols[c][i] if i is not None else right._cols[c][j] for i, j in rows])
        else:
            nm = c + (suffixes[0] if c in right._cols else "")
            put(nm, [left._cols[c][i] if i is not None else null_cell(kind) for i, j in rows])
    for c in right._cols:
        if c in samekeys:
            continue
        kind = right._cols[c][0].kind if right._n else "f"
        nm = c + (suffixes[1] if c in left._cols else "")
        put(nm, [right._cols[c][j] if j is not None else null_cell(kind) for i, j in rows])
    r = DataFrame(out)
    r._n = len(rows)
    r.index = list(range(len(rows)))
    return r


def isnull(x):
    if isinstance(x, _Vec):
        return x.isnull()
    if isinstance(x, Cell):
        return Cell(FALSE, x.null, "b")
    if x is None:
        return True
    if isinstance(x, float) and x != x:
        return True
    return False


def to_numeric(x, errors="raise"):
    return x


class _ApiTypes:
    @staticmethod
    def is_numeric_dtype(x):
        if isinstance(x, _Vec):
            k = x.kind
            if k == "b":
                # a boolean column holding a missing value is an object column in pandas (not numeric); without one it is bool (numeric)
                return not any(decide(c.null, (c,)) for c in x.cells if not z3.is_false(c.null))
            return k in ("i", "f")
        return isinstance(x, (int, float))


class _Api:
    types = _ApiTypes


def make_pandas():
    m = types.ModuleType("sympd")
    m.DataFrame = DataFrame
    m.Series = Series
    m.concat = concat
    m.merge = merge
    m.isnull = isnull
    m.isna = isnull
    m.to_numeric = to_numeric
    m.api = _Api
    m.NA = None
    m.RangeIndex = RangeIndex
    m.Index = Index
    return m
