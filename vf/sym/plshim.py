"""sympl: a symbolic stand-in for the part of the polars API that data_algebra's Polars executor (polars_model.py) calls.

Expressions are small ASTs evaluated over dense symbolic frames (concrete row count per path, cells from vf.sym.cell); structure
(filters, grouping, join matches, sort order) forks through forksym.  Semantics follow polars 1.x: comparisons / arithmetic propagate
null, Kleene logic, `when` treats a null condition as false, group_by groups nulls together, joins never match null keys, sorts put
nulls first, horizontal min/max ignore nulls, sum of nothing is 0 ...  ATTRIBUTE EXISTENCE is delegated to the installed polars
(hasattr(polars.Expr, name)), so calls that polars 1.44 rejects (Expr.cumsum, group_by().apply ...) raise here exactly as there --
C03 allows raising and forbids silently different tables.  Validated per run against real polars on solver witnesses."""
from __future__ import annotations

import functools
import types

import z3

from vf.forksym import B, OutsideClaim, KnownFindingPath
from vf.sym import cell as C
from vf.sym import pdshim
from vf.sym.cell import Cell, Unmodelled, lit, null_cell, zor, zand, znot, FALSE, TRUE, decide

import polars as real_pl

Int64 = real_pl.Int64
Float64 = real_pl.Float64
Date = real_pl.Date
Datetime = real_pl.Datetime
Utf8 = real_pl.Utf8
Boolean = real_pl.Boolean
datatypes = real_pl.datatypes


def _require_attr(cls, name):
    if not hasattr(cls, name):
        raise AttributeError(f"'{cls.__name__}' object has no attribute '{name}'")


# ------------------------------------------------------------------------------------------------------------------ scalar semantics
def _kleene_or(a, b):
    ta, tb = zand(znot(a.null), pdshim._boolval(a)), zand(znot(b.null), pdshim._boolval(b))
    dc, kf = C.taint(a, b)
    return Cell(zand(zor(a.null, b.null), znot(ta), znot(tb)), zor(ta, tb), "b", dc, kf)


def _kleene_and(a, b):
    fa, fb = zand(znot(a.null), znot(pdshim._boolval(a))), zand(znot(b.null), znot(pdshim._boolval(b)))
    dc, kf = C.taint(a, b)
    return Cell(zand(zor(a.null, b.null), znot(fa), znot(fb)), zand(pdshim._boolval(a), pdshim._boolval(b)), "b", dc, kf)


def _cmp(op):
    def f(a, b):
        dc, kf = C.taint(a, b)
        null = zor(a.null, b.null)
        if z3.is_true(a.null) or z3.is_true(b.null):
            return Cell(TRUE, FALSE, "b", dc, kf)
        v = {"==": lambda: C.veq(a, b), "!=": lambda: znot(C.veq(a, b)), "<": lambda: C.lt(a, b), ">": lambda: C.lt(b, a), "<=": lambda: znot(C.lt(b, a)),
             ">=": lambda: znot(C.lt(a, b))}[op]()
        return Cell(null, v, "b", dc, kf)
    return f


def _arith(op):
    def f(a, b):
        if a.kind == "s" or b.kind == "s":
            raise Unmodelled("polars arithmetic on strings")
        dc, kf = C.taint(a, b)
        null = zor(a.null, b.null)
        isint = C.is_intlike(a) and C.is_intlike(b)
        if op in ("+", "-", "*"):
            x, y = (C.num(a), C.num(b)) if isint else (C.real(a), C.real(b))
            v = x + y if op == "+" else (x - y if op == "-" else x * y)
            return Cell(null, v, "i" if isint else "f", dc, kf)
        if op == "/":
            return pdshim._divide(a, b)  # true division, x / 0 = +/-inf, 0 / 0 = NaN: as numpy
        if op == "//":
            r = pdshim._floor_divide(a, b)  # floor of the quotient, as Python / numpy
            return Cell(null, r.val, r.kind, r.dc, kf)
        if op == "%":
            return Cell(null, z3.IntVal(0) if isint else z3.RealVal(0), "i" if isint else "f", TRUE, kf)
        if op == "**":
            r = pdshim._power(a, b)
            return Cell(null, r.val, r.kind, dc, kf)
        raise Unmodelled(op)
    return f


# ------------------------------------------------------------------------------------------------------------------ expressions
class Expr:
    def __init__(self, kind, *args, **kw):
        self.kind = kind
        self.args = args
        self.kw = kw

    # ---- construction
    def _bin(self, op, o, swap=False):
        o = o if isinstance(o, Expr) else lit_expr(o)
        return Expr("bin", op, o, self) if swap else Expr("bin", op, self, o)

    def __add__(self, o): return self._bin("+", o)
    def __radd__(self, o): return self._bin("+", o, True)
    def __sub__(self, o): return self._bin("-", o)
    def __rsub__(self, o): return self._bin("-", o, True)
    def __mul__(self, o): return self._bin("*", o)
    def __rmul__(self, o): return self._bin("*", o, True)
    def __truediv__(self, o): return self._bin("/", o)
    def __rtruediv__(self, o): return self._bin("/", o, True)
    def __floordiv__(self, o): return self._bin("//", o)
    def __mod__(self, o): return self._bin("%", o)
    def __pow__(self, o): return self._bin("**", o)
    def __eq__(self, o): return self._bin("==", o)
    def __ne__(self, o): return self._bin("!=", o)
    def __lt__(self, o): return self._bin("<", o)
    def __le__(self, o): return self._bin("<=", o)
    def __gt__(self, o): return self._bin(">", o)
    def __ge__(self, o): return self._bin(">=", o)
    def __and__(self, o): return self._bin("&", o)
    def __or__(self, o): return self._bin("|", o)
    def __rand__(self, o): return self._bin("&", o, True)
    def __ror__(self, o): return self._bin("|", o, True)
    def __neg__(self): return Expr("bin", "-", lit_expr(0), self)
    def __invert__(self): return Expr("call", "not_", self)

    __hash__ = None

    def __bool__(self):
        raise TypeError("the truth value of an Expr is ambiguous")

    def alias(self, name):
        return Expr("alias", self, name)

    def over(self, partition_by, *more, **kw):
        if isinstance(partition_by, str):
            partition_by = [partition_by]
        return Expr("over", self, list(partition_by) + list(more))

    def __getattr__(self, name):
        if name.startswith("__"):
            raise AttributeError(name)
        _require_attr(real_pl.Expr, name)  # polars decides which methods exist

        def method(*a, **k):
            return Expr("call", name, self, *a, **k)

        return method

    @property
    def str(self):
        raise Unmodelled("Expr.str namespace")


def lit_expr(v, dtype=None):
    return Expr("lit", v)


def col(name, *more):
    if more or not isinstance(name, str):
        raise Unmodelled("pl.col with several names")
    return Expr("col", name)


class _When:
    def __init__(self, cond, prev=None):
        self.cond = cond
        self.prev = prev

    def then(self, v):
        return _Then(self.cond, v if isinstance(v, Expr) else lit_expr(v))


class _Then(Expr):
    def __init__(self, cond, val):
        Expr.__init__(self, "when", cond, val, lit_expr(None))

    def otherwise(self, v):
        return Expr("when", self.args[0], self.args[1], v if isinstance(v, Expr) else lit_expr(v))


def when(cond):
    return _When(cond)


def _flat(args):
    out = []
    for a in args:
        if isinstance(a, (list, tuple)):
            out.extend(_flat(a))
        else:
            out.append(a if isinstance(a, Expr) else lit_expr(a))
    return out


def coalesce(*args):
    return Expr("hfun", "coalesce", _flat(args))


def max_horizontal(*args):
    return Expr("hfun", "max", _flat(args))


def min_horizontal(*args):
    return Expr("hfun", "min", _flat(args))


def sum_horizontal(*args):
    return Expr("hfun", "sum", _flat(args))


def concat_str(*args, **kw):
    if kw.get("separator") or kw.get("ignore_nulls"):
        raise Unmodelled("pl.concat_str options")
    return Expr("hfun", "concat_str", _flat(args))


# ---- evaluation
class Ctx:
    """rows = list of row dicts name->Cell (frame order); eval returns a list of Cells (column) or a single Cell (aggregated scalar)"""

    def __init__(self, cols, n):
        self.cols = cols
        self.n = n


def _col_or_scalar(v, n):
    return v if isinstance(v, list) else [v] * n


def ev(e, cols, n):
    """evaluate expression over a frame given as {name: [Cell]*n}; returns list[Cell] (length n) or Cell (scalar / aggregate)"""
    k = e.kind
    if k == "col":
        if e.args[0] not in cols:
            raise KeyError(f"ColumnNotFoundError: {e.args[0]}")
        return list(cols[e.args[0]])
    if k == "lit":
        v = e.args[0]
        if isinstance(v, (list, tuple, set, dict)):
            raise Unmodelled("list literal outside is_in")
        return lit(v)
    if k == "alias":
        return ev(e.args[0], cols, n)
    if k == "bin":
        op, a, b = e.args
        x, y = ev(a, cols, n), ev(b, cols, n)
        f = {"&": _kleene_and, "|": _kleene_or}.get(op) or ({"==": 1, "!=": 1, "<": 1, "<=": 1, ">": 1, ">=": 1}.get(op) and _cmp(op)) or _arith(op)
        if isinstance(x, list) or isinstance(y, list):
            m = len(x) if isinstance(x, list) else len(y)
            xs, ys = _col_or_scalar(x, m), _col_or_scalar(y, m)
            return [f(p, q) for p, q in zip(xs, ys)]
        return f(x, y)
    if k == "when":
        c, a, b = (ev(x, cols, n) for x in e.args)
        m = max([len(v) for v in (c, a, b) if isinstance(v, list)] or [None], key=lambda z: -1 if z is None else z)
        if m is None:
            return _when_cell(c, a, b)
        cs, as_, bs = _col_or_scalar(c, m), _col_or_scalar(a, m), _col_or_scalar(b, m)
        return [_when_cell(p, q, r) for p, q, r in zip(cs, as_, bs)]
    if k == "hfun":
        vals = [ev(x, cols, n) for x in e.args[1]]
        m = max([len(v) for v in vals if isinstance(v, list)] or [0])
        if not any(isinstance(v, list) for v in vals):
            return _hfun(e.args[0], vals)
        cols_ = [_col_or_scalar(v, m) for v in vals]
        return [_hfun(e.args[0], [c[i] for c in cols_]) for i in range(m)]
    if k == "over":
        inner, part = e.args
        for p in part:
            if p not in cols:
                raise KeyError(f"ColumnNotFoundError: {p}")
        groups = _group_positions([cols[p] for p in part], n)
        out = [None] * n
        for g in groups:
            sub = {c: [v[i] for i in g] for c, v in cols.items()}
            r = ev(inner, sub, len(g))
            rs = _col_or_scalar(r, len(g))
            if len(rs) != len(g):
                raise Unmodelled("window expression changed the group length")
            for i, v in zip(g, rs):
                out[i] = v
        return out
    if k == "call":
        return _call(e, cols, n)
    raise Unmodelled(f"polars expression {k}")


def _when_cell(c, a, b):
    t = zand(znot(c.null), pdshim._boolval(c))
    if z3.is_true(a.null) and not z3.is_true(b.null):
        kind = b.kind
    elif z3.is_true(b.null) and not z3.is_true(a.null):
        kind = a.kind
    else:
        kind = C.join_kind(a, b) if a.kind != b.kind else a.kind
    a2, b2 = C.coerce(a, kind), C.coerce(b, kind)
    dc = zor(c.dc, z3.If(t, a.dc, b.dc) if not (z3.is_false(a.dc) and z3.is_false(b.dc)) else FALSE)
    kf = zor(c.kf, z3.If(t, a.kf, b.kf) if not (z3.is_false(a.kf) and z3.is_false(b.kf)) else FALSE)
    return Cell(z3.If(t, a2.null, b2.null), z3.If(t, a2.val, b2.val), kind, dc, kf)


def _hfun(name, cells):
    if name == "concat_str":
        if any(c.kind != "s" for c in cells):
            raise Unmodelled("concat_str of non-strings (number formatting)")
        dc, kf = C.taint(*cells)
        v = cells[0].val
        for c in cells[1:]:
            v = z3.Concat(v, c.val)
        return Cell(zor(*[c.null for c in cells]), v, "s", dc, kf)  # null if any part is null (ignore_nulls=False)
    if name == "coalesce":
        res = cells[-1]
        for c in reversed(cells[:-1]):
            res = _when_cell(Cell(FALSE, znot(c.null), "b"), c, res)
        return res
    if name in ("max", "min"):
        r = pdshim._agg(cells, name)
        dc, kf = C.taint(*cells)
        return Cell(r.null, r.val, r.kind, dc, kf)
    if name == "sum":
        r = pdshim._agg(cells, "sum")
        dc, kf = C.taint(*cells)
        return Cell(FALSE, r.val, r.kind, dc, kf)
    raise Unmodelled(name)


def _group_positions(keycols, n):
    groups, reps = [], []
    for i in range(n):
        key = [kc[i] for kc in keycols]
        for gi, r in enumerate(reps):
            if all(C.same_py(a, b) for a, b in zip(key, r)):
                groups[gi].append(i)
                break
        else:
            reps.append(key)
            groups.append([i])
    return groups


def _call(e, cols, n):
    name = e.args[0]
    x = ev(e.args[1], cols, n)
    rest = e.args[2:]
    kw = e.kw
    xs = x if isinstance(x, list) else None

    def elementwise(f):
        return [f(c) for c in xs] if xs is not None else f(x)

    def agg(op):
        cells = xs if xs is not None else [x]
        r = pdshim._agg(cells, op)
        return r

    if name == "is_null":
        return elementwise(lambda c: Cell(FALSE, c.null, "b", c.dc, c.kf))
    if name == "is_not_null":
        return elementwise(lambda c: Cell(FALSE, znot(c.null), "b", c.dc, c.kf))
    if name == "is_infinite":
        return elementwise(lambda c: Cell(c.null, C.inf_formula(c), "b", c.dc, c.kf))  # FALSE unless the job runs in inf mode
    if name == "is_nan":
        return elementwise(lambda c: Cell(c.null, FALSE, "b", c.dc, c.kf))  # NaN is outside the value model; null stays null
    if name == "not_":
        return elementwise(lambda c: Cell(c.null, znot(pdshim._boolval(c)), "b", c.dc, c.kf))
    if name == "abs":
        return elementwise(pdshim._abs)
    if name == "sign":
        def sg(c):
            r = pdshim._sign(c)
            return r
        return elementwise(sg)
    if name == "floor":
        return elementwise(pdshim._floor)
    if name == "ceil":
        return elementwise(pdshim._ceil)
    if name == "round":
        def rd(c):
            if c.kind != "f":
                return Cell(c.null, C.real(c), "f", c.dc, c.kf)
            v = c.val
            av = z3.If(v >= 0, v, -v)
            r = z3.ToInt(av + z3.RealVal(1) / 2)
            return Cell(c.null, z3.ToReal(z3.If(v >= 0, r, -r)), "f", c.dc, c.kf)  # polars rounds half away from zero
        return elementwise(rd)
    if name == "cast":
        ty = rest[0] if rest else kw.get("dtype")
        if ty in (int, Int64):
            def ci(c):
                if c.kind == "f":
                    v = c.val
                    return Cell(c.null, z3.If(v >= 0, z3.ToInt(v), -z3.ToInt(-v)), "i", c.dc, c.kf)
                if c.kind in ("i", "b"):
                    return Cell(c.null, C.num(c), "i", c.dc, c.kf)
                raise Unmodelled("cast string to int")
            return elementwise(ci)
        if ty in (float, Float64):
            return elementwise(lambda c: C.coerce(c, "f"))
        raise Unmodelled(f"cast({ty})")
    if name in ("exp", "log", "log10", "log1p", "sqrt", "sin", "cos", "tanh", "sinh", "cosh", "arcsin", "arccos", "arctan", "arcsinh", "arccosh", "arctanh", "expm1"):
        return elementwise(pdshim._uninterp(name))
    if name == "is_in":
        vals = rest[0]
        if isinstance(vals, Expr):
            raise Unmodelled("is_in(expr)")
        vs = [lit(v) for v in vals]
        def isin(c):
            hit = zor(*[C.veq(c, v) for v in vs if not z3.is_true(v.null)])
            return Cell(c.null, hit, "b", c.dc, c.kf)
        return elementwise(isin)
    if name == "fill_null":
        strat = kw.get("strategy")
        if strat in ("forward", "backward") and xs is not None:
            return pdshim._transform(xs, "ffill" if strat == "forward" else "bfill")
        raise Unmodelled("fill_null form")
    if name == "shift":
        p = rest[0] if rest else kw.get("n", 1)
        if isinstance(p, Expr):
            raise Unmodelled("shift(expr)")
        if xs is None:
            raise Unmodelled("shift of scalar")
        return pdshim._transform(xs, "shift", p)
    if name in ("cum_sum", "cum_max", "cum_min", "cum_count"):
        if xs is None:
            raise Unmodelled("cumulative of scalar")
        if name == "cum_sum":
            # polars: null stays null, running total skips it
            return pdshim._transform(xs, "cumsum")
        return pdshim._transform(xs, {"cum_max": "cummax", "cum_min": "cummin"}[name])
    if name == "rank":
        if xs is None:
            raise Unmodelled("rank of scalar")
        return pdshim._transform(xs, "rank")
    # aggregations
    if name == "sum":
        r = agg("sum")
        return r
    if name in ("max", "min", "mean"):
        return agg(name)
    if name == "count":
        r = agg("count")
        return r
    if name == "len":
        return Cell(FALSE, z3.IntVal(len(xs) if xs is not None else 1), "i")
    if name == "drop_nulls":
        cells = xs if xs is not None else [x]
        return [c for c in cells if not C.is_null_py(c)]
    if name == "n_unique":
        cells = xs if xs is not None else [x]
        # polars counts null as one distinct value
        terms = []
        for i, c in enumerate(cells):
            first = zand(*[znot(C.same(c, d)) for d in cells[:i]])
            terms.append(z3.If(first, 1, 0))
        return Cell(FALSE, z3.Sum(terms) if terms else z3.IntVal(0), "i")
    if name == "first":
        cells = xs if xs is not None else [x]
        return cells[0] if cells else null_cell("f")
    if name == "last":
        cells = xs if xs is not None else [x]
        return cells[-1] if cells else null_cell("f")
    if name in ("any", "all"):
        cells = xs if xs is not None else [x]
        # polars any/all ignore nulls by default
        vals = [zand(znot(c.null), pdshim._boolval(c)) if name == "any" else zor(c.null, pdshim._boolval(c)) for c in cells]
        return Cell(FALSE, (zor(*vals) if name == "any" else zand(*vals)) if vals else z3.BoolVal(name == "all"), "b")
    if name in ("var", "median"):
        if kw.get("ddof", 1) != 1:
            raise Unmodelled("var(ddof != 1)")
        return agg(name)  # polars: nulls skipped, sample variance (ddof=1), null below two values
    if name == "std":
        raise Unmodelled("std (square root: outside the polynomial fragment)")
    raise Unmodelled(f"polars Expr.{name}")


# ------------------------------------------------------------------------------------------------------------------ frames
class _GroupBy:
    def __init__(self, df, by):
        self.df = df
        self.by = [by] if isinstance(by, str) else list(by)

    def agg(self, exprs, *more):
        exprs = _flat([exprs] + list(more))
        df = self.df
        for b in self.by:
            if b not in df._cols:
                raise KeyError(f"ColumnNotFoundError: {b}")
        groups = _group_positions([df._cols[b] for b in self.by], df._n)
        out = {b: [] for b in self.by}
        names = [_out_name(e) for e in exprs]
        for nm in names:
            if nm in out:
                raise Unmodelled("duplicate output name in agg")
            out[nm] = []
        for g in groups:
            sub = {c: [v[i] for i in g] for c, v in df._cols.items()}
            for b in self.by:
                out[b].append(df._cols[b][g[0]])
            for nm, e in zip(names, exprs):
                r = ev(e, sub, len(g))
                if isinstance(r, list):
                    raise Unmodelled("non-aggregating expression in group_by().agg (list result)")
                out[nm].append(r)
        return df._like(out, len(groups))

    def sum(self):
        df = self.df
        others = [c for c in df._cols if c not in self.by]
        return self.agg([Expr("call", "sum", col(c)).alias(c) for c in others])

    def __getattr__(self, name):
        _require_attr(real_pl.dataframe.group_by.GroupBy, name)
        raise Unmodelled(f"GroupBy.{name}")


def _out_name(e):
    if e.kind == "alias":
        return e.args[1]
    if e.kind == "col":
        return e.args[0]
    if e.kind in ("call",):
        return _out_name(e.args[1])
    if e.kind == "over":
        return _out_name(e.args[0])
    if e.kind == "bin":
        return _out_name(e.args[1])
    if e.kind == "when":
        return _out_name(e.args[1]) if e.args[1].kind != "lit" else "literal"
    if e.kind == "lit":
        return "literal"
    raise Unmodelled("output name of expression")


class _PySeries:
    def __init__(self, cells):
        self.cells = cells

    def max(self):
        vals = [z3.simplify(C.num(c)) for c in self.cells]
        if all(z3.is_int_value(v) for v in vals) and vals:
            return max(v.as_long() for v in vals)
        raise Unmodelled("Series.max of symbolic values")

    def __len__(self):
        return len(self.cells)


class _Frame:
    _lazy = False

    def __init__(self, data=None, schema=None, _n=None, **kw):
        self._cols = {}
        n = _n
        if data is None:
            data = {}
        if isinstance(data, _Frame):
            self._cols = {k: list(v) for k, v in data._cols.items()}
            n = data._n
        elif isinstance(data, dict):
            for k, v in data.items():
                cells = [lit(c) for c in v]
                if n is None:
                    n = len(cells)
                elif len(cells) != n:
                    raise ValueError("ShapeError: columns of different length")
                self._cols[k] = cells
        else:
            try:
                import pandas as real_pd

                if isinstance(data, real_pd.DataFrame):  # control tables of record specifications: concrete cells
                    for k in data.columns:
                        self._cols[k] = [lit(None if (x is None or x != x) else x) for x in data[k].tolist()]
                    n = data.shape[0]
                else:
                    raise Unmodelled(f"pl.DataFrame({type(data)})")
            except ImportError:
                raise Unmodelled(f"pl.DataFrame({type(data)})")
        self._n = n or 0

    # ---- basic properties
    @property
    def columns(self):
        return list(self._cols.keys())

    @columns.setter
    def columns(self, names):
        names = [pdshim.unlit(x) for x in names]
        if any(isinstance(x, Cell) for x in names):
            raise Unmodelled("symbolic value used as a column name")
        if len(names) != len(self._cols):
            raise ValueError("ShapeError: column names length mismatch")
        if len(set(names)) != len(names):
            raise ValueError("DuplicateError: duplicate column names")
        self._cols = dict(zip(names, list(self._cols.values())))

    @property
    def shape(self):
        return (self._n, len(self._cols))

    @property
    def dtypes(self):
        return [None for _ in self._cols]

    def lazy(self):
        return LazyFrame(self)

    def collect(self, *a, **k):
        if not self._lazy:
            _require_attr(real_pl.DataFrame, "collect")
        return DataFrame(self)

    def clone(self):
        return type(self)(self)

    def _like(self, cols, n):
        return type(self)(cols, _n=n)

    def __getitem__(self, k):
        if self._lazy:
            raise TypeError("'LazyFrame' object is not subscriptable")
        if isinstance(k, str):
            if k not in self._cols:
                raise KeyError(k)
            return _PySeries(self._cols[k])
        if isinstance(k, list):  # df[[cols]]
            for c in k:
                if c not in self._cols:
                    raise KeyError(f"ColumnNotFoundError: {c}")
            return self._like({c: list(self._cols[c]) for c in k}, self._n)
        if isinstance(k, tuple) and len(k) == 2:
            r, c = k
            names = list(self._cols)
            if isinstance(c, int):
                c = names[c]
            if isinstance(r, int):
                if isinstance(c, str):
                    return pdshim.unlit(self._cols[c][r])  # df[i, "col"] / df[i, j]: a python scalar for concrete cells
                if isinstance(c, list):
                    return self._like({x: [self._cols[x][r]] for x in c}, 1)
            if isinstance(r, slice) and r == slice(None):
                if isinstance(c, list):
                    cs = [pdshim.unlit(x) for x in c]
                    for x in cs:
                        if x not in self._cols:
                            raise KeyError(f"ColumnNotFoundError: {x}")
                    return self._like({x: list(self._cols[x]) for x in cs}, self._n)
                if isinstance(c, str):
                    return _PySeries(self._cols[c])
        raise Unmodelled("DataFrame[...] form")

    @property
    def _colnames(self):
        return list(self._cols)

    def partition_by(self, by, *more, **kw):
        by = ([by] if isinstance(by, str) else list(by)) + list(more)
        for b in by:
            if b not in self._cols:
                raise KeyError(f"ColumnNotFoundError: {b}")
        groups = _group_positions([self._cols[b] for b in by], self._n)
        return [self._like({c: [v[i] for i in g] for c, v in self._cols.items()}, len(g)) for g in groups]

    def drop(self, columns, *more, **kw):
        cs = ([columns] if isinstance(columns, str) else list(columns)) + list(more)
        for c in cs:
            if c not in self._cols:
                raise KeyError(f"ColumnNotFoundError: {c}")
        return self._like({c: list(v) for c, v in self._cols.items() if c not in cs}, self._n)

    # ---- verbs
    def select(self, exprs, *more):
        exprs = [exprs] + list(more)
        flat = []
        for e in exprs:
            if isinstance(e, (list, tuple)):
                flat.extend(e)
            else:
                flat.append(e)
        out = {}
        scalar_only = True
        vals = []
        for e in flat:
            if isinstance(e, str):
                e = col(e)
            nm = _out_name(e)
            if nm in out or nm in [v[0] for v in vals]:
                raise ValueError(f"DuplicateError: column {nm}")
            r = ev(e, self._cols, self._n)
            vals.append((nm, r))
            if isinstance(r, list):
                scalar_only = False
        n = self._n if not scalar_only else 1
        for nm, r in vals:
            out[nm] = r if isinstance(r, list) else [r] * n
        return self._like(out, n if flat else 0)

    def with_columns(self, exprs, *more):
        exprs = _flat([exprs] + list(more))
        out = {k: list(v) for k, v in self._cols.items()}
        new = {}
        for e in exprs:
            nm = _out_name(e)
            r = ev(e, self._cols, self._n)
            new[nm] = r if isinstance(r, list) else [r] * self._n
        out.update(new)
        return self._like(out, self._n)

    def filter(self, pred):
        m = ev(pred, self._cols, self._n)
        ms = m if isinstance(m, list) else [m] * self._n
        keep = [i for i, c in enumerate(ms) if C.decide_true(c, zand(znot(c.null), pdshim._boolval(c)))]
        return self._like({k: [v[i] for i in keep] for k, v in self._cols.items()}, len(keep))

    def group_by(self, by, *more, **kw):
        by = ([by] if isinstance(by, str) else list(by)) + list(more)
        return _GroupBy(self, by)

    def sort(self, by, *more, descending=False, nulls_last=False, **kw):
        by = ([by] if isinstance(by, str) else list(by)) + list(more)
        desc = [descending] * len(by) if isinstance(descending, bool) else list(descending)
        if len(desc) != len(by):
            raise ValueError("the length of `descending` does not match the length of `by`")
        for c in by:
            if c not in self._cols:
                raise KeyError(f"ColumnNotFoundError: {c}")
        cols = [self._cols[c] for c in by]
        ties = [False]

        def cmp(i, j):
            for colv, d in zip(cols, desc):
                x, y = colv[i], colv[j]
                xn, yn = decide(x.null, (x,)), decide(y.null, (y,))
                if xn and yn:
                    continue
                if xn or yn:
                    if "order_rows_null_key" in pdshim.KF_ON:
                        # recorded finding: the executors disagree on where a missing sort key goes (window sorts with a missing order key are outside every claim)
                        raise KnownFindingPath("order_rows_null_key")
                    r = -1 if xn else 1  # nulls first (nulls_last=False), independent of direction
                    if nulls_last:
                        r = -r
                    return r
                if decide(C.veq(x, y), (x, y)):
                    continue
                r = -1 if decide(C.lt(x, y), (x, y)) else 1
                return -r if d else r
            if i != j:
                ties[0] = True
            return 0

        order = sorted(range(self._n), key=functools.cmp_to_key(cmp))
        r = self._like({k: [v[i] for i in order] for k, v in self._cols.items()}, self._n)
        r._ties = ties[0]
        if ties[0]:
            pdshim.ORDER_SORT_TIES[0] = True
        r._adj = [cmp(order[p], order[p + 1]) == 0 for p in range(len(order) - 1)] if ties[0] else None
        return r

    def head(self, n=5):
        adj = getattr(self, "_adj", None)
        if adj and 0 < n < self._n and adj[n - 1]:
            raise OutsideClaim("row limit cuts through rows tied in the sort order")
        k = min(n, self._n)
        return self._like({c: v[:k] for c, v in self._cols.items()}, k)

    def rename(self, mapping):
        for k in mapping:
            if k not in self._cols:
                raise KeyError(f"ColumnNotFoundError: {k}")
        names = [mapping.get(k, k) for k in self._cols]
        if len(set(names)) != len(names):
            raise ValueError("DuplicateError: rename produces duplicate column names")
        return self._like(dict(zip(names, [list(v) for v in self._cols.values()])), self._n)

    def join(self, other, on=None, how="inner", left_on=None, right_on=None, suffix="_right", **kw):
        left_on_given, right_on_given = left_on is not None, right_on is not None  # polars rejects keys for a cross join even if the lists are empty
        if on is not None:
            left_on = right_on = [on] if isinstance(on, str) else list(on)
        left_on = [left_on] if isinstance(left_on, str) else list(left_on or [])
        right_on = [right_on] if isinstance(right_on, str) else list(right_on or [])
        if how == "outer":
            how = "full"  # deprecated alias kept by polars 1.x
        if how not in ("inner", "left", "right", "full", "cross", "semi", "anti"):
            raise ValueError(f"invalid join strategy {how}")
        if how == "cross":
            if left_on_given or right_on_given:
                raise ValueError("cross join should not pass join keys")
        elif not left_on:
            raise ValueError("join keys required")
        for c in left_on:
            if c not in self._cols:
                raise KeyError(f"ColumnNotFoundError: {c}")
        for c in right_on:
            if c not in other._cols:
                raise KeyError(f"ColumnNotFoundError: {c}")
        pairs, lm, rm = [], set(), set()
        for i in range(self._n):
            for j in range(other._n):
                ok = True
                for a, b in zip(left_on, right_on):
                    x, y = self._cols[a][i], other._cols[b][j]
                    if not decide(zand(znot(x.null), znot(y.null), C.veq(x, y)), (x, y)):  # null keys never match
                        ok = False
                        break
                if ok:
                    pairs.append((i, j))
                    lm.add(i)
                    rm.add(j)
        rows = list(pairs)
        if how in ("left", "full"):
            rows = []
            for i in range(self._n):
                ps = [p for p in pairs if p[0] == i]
                rows += ps if ps else [(i, None)]
        if how == "full":
            rows += [(None, j) for j in range(other._n) if j not in rm]
        if how == "right":
            raise Unmodelled("polars right join")
        if how in ("semi", "anti"):
            raise Unmodelled("semi/anti join")
        out = {}
        for c, v in self._cols.items():
            kind = v[0].kind if v else "f"
            out[c] = [v[i] if i is not None else null_cell(kind) for i, j in rows]
        drop_right_keys = how in ("inner", "left")  # coalesce default: key columns of the right frame are dropped except for full joins
        for c, v in other._cols.items():
            if drop_right_keys and c in right_on and how != "cross":
                continue
            nm = c + suffix if c in out else c
            if nm in out:
                raise ValueError(f"DuplicateError: column {nm}")
            kind = v[0].kind if v else "f"
            out[nm] = [v[j] if j is not None else null_cell(kind) for i, j in rows]
        return self._like(out, len(rows))

    def to_pandas(self):
        raise Unmodelled("to_pandas on the polars model")

    def __getattr__(self, name):
        if name.startswith("_"):
            raise AttributeError(name)
        _require_attr(real_pl.LazyFrame if type(self)._lazy else real_pl.DataFrame, name)
        raise Unmodelled(f"polars frame method {name}")


class DataFrame(_Frame):
    _lazy = False


class LazyFrame(_Frame):
    _lazy = True


def concat(frames, how="vertical", **kw):
    frames = list(frames)
    if how == "vertical":
        cols = frames[0].columns
        for f in frames[1:]:
            if f.columns != cols:
                raise ValueError("ShapeError: unable to vstack, column names / order differ")
        out = {c: sum([list(f._cols[c]) for f in frames], []) for c in cols}
        return frames[0]._like(out, sum(f._n for f in frames))
    if how == "horizontal":
        out = {}
        n = frames[0]._n
        for f in frames:
            if f._n != n:
                raise Unmodelled("horizontal concat of different heights")
            for c, v in f._cols.items():
                if c in out:
                    raise ValueError(f"DuplicateError: {c}")
                out[c] = list(v)
        return frames[0]._like(out, n)
    raise Unmodelled(f"concat how={how}")


class Series:
    def __init__(self, *a, **k):
        raise Unmodelled("pl.Series")


def make_polars():
    m = types.ModuleType("sympl")
    for k, v in dict(col=col, lit=lit_expr, when=when, coalesce=coalesce, max_horizontal=max_horizontal, min_horizontal=min_horizontal, sum_horizontal=sum_horizontal,
                     concat_str=concat_str, concat=concat, DataFrame=DataFrame, LazyFrame=LazyFrame, Series=Series, Expr=Expr, Int64=Int64, Float64=Float64, Date=Date,
                     Datetime=Datetime, Utf8=Utf8, Boolean=Boolean, datatypes=datatypes).items():
        setattr(m, k, v)

    def _missing(name):
        _require_attr(real_pl, name)
        raise Unmodelled(f"pl.{name}")

    m.__getattr__ = _missing
    m.SQLContext = real_pl.SQLContext
    return m
