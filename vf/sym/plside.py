"""Polars side for translation-validation jobs: the repository's PolarsModel (private copy of polars_model.py, current source) runs over
the symbolic polars stand-in (vf.sym.plshim); the real side evaluates the pipeline on real polars frames (eager or lazy)."""
from __future__ import annotations

import warnings

from vf.sym import load, plshim, rel, tv
from vf.sym.cell import Unmodelled

_MODEL = {}


def sym_polars_model(lazy):
    if lazy in _MODEL:
        return _MODEL[lazy]
    if "shim" not in _MODEL:
        _MODEL["shim"] = plshim.make_polars()
    m = load.private_copy("polars_model", {"polars": _MODEL["shim"]}, tag="sympl")
    model = m.PolarsModel(use_lazy_eval=lazy)
    _MODEL[lazy] = model
    return model


class PolarsSide(tv.Side):
    def __init__(self, src, lazy=False, inmap=None, outmap=None):
        self.src, self.lazy, self.inmap, self.outmap = src, lazy, inmap, outmap
        self.name = "polars-lazy" if lazy else "polars"

    def prepare(self):
        self.ops = tv.build_ops(self.src)

    def sym(self, tabs, nrows):
        if self.inmap:
            tabs, nrows = tv.apply_inmap(self.inmap, tabs, nrows)
        try:
            model = sym_polars_model(self.lazy)
            frames = {}
            for t, cols in tabs.items():
                f = plshim.DataFrame({k: list(v) for k, v in cols.items()}, _n=nrows[t])
                frames[t] = f.lazy() if self.lazy else f
            with warnings.catch_warnings():
                warnings.simplefilter("ignore")
                res = model.eval(self.ops, data_map=frames)
            if not isinstance(res, plshim._Frame):
                return rel.SideResult(unmodelled=f"polars result type {type(res)}")
            cols = list(res.columns)
            r = rel.SideResult(cols, [[res._cols[c][i] for c in cols] for i in range(res._n)], ordered=False)
            return tv.apply_outmap(self.outmap, r)
        except Unmodelled as u:
            return rel.SideResult(unmodelled=str(u))
        except Exception as e:
            return rel.SideResult(exc=f"{type(e).__name__}: {str(e)[:200]}")

    def real(self, frames):
        import polars as pl
        import data_algebra.polars_model

        if self.inmap:
            frames = tv.apply_inmap_real(self.inmap, frames)
        try:
            pf = {}
            for t, f in frames.items():
                d = {}
                kinds = getattr(f, "attrs", {}).get("kinds", {})
                for c in f.columns:
                    vals = [None if (v is None or v != v) else (v.item() if hasattr(v, "item") else v) for v in f[c].tolist()]
                    if kinds.get(c) == "i":
                        d[c] = pl.Series(c, [None if v is None else int(v) for v in vals], dtype=pl.Int64)
                    elif kinds.get(c) == "b":
                        d[c] = pl.Series(c, [None if v is None else bool(v) for v in vals], dtype=pl.Boolean)
                    elif str(f[c].dtype).startswith("float") or str(f[c].dtype).startswith("int"):
                        d[c] = pl.Series(c, vals, dtype=pl.Float64 if str(f[c].dtype).startswith("float") else pl.Int64)
                    else:
                        d[c] = pl.Series(c, vals)
                g = pl.DataFrame(d)
                pf[t] = g.lazy() if self.lazy else g
            with warnings.catch_warnings():
                warnings.simplefilter("ignore")
                res = self.ops.eval(pf)
            if isinstance(res, pl.LazyFrame):
                res = res.collect()
            cols = list(res.columns)
            rows = [[rel._py(v) for v in r] for r in res.rows()]
            return tv.apply_outmap_real(self.outmap, (cols, rows)), None
        except BaseException as e:  # polars raises pyo3 panics as BaseException subclasses
            if isinstance(e, (KeyboardInterrupt, SystemExit)):
                raise
            return None, f"{type(e).__name__}: {str(e)[:200]}"

    def describe(self):
        return f"{self.name}: " + self.src
