"""Run CrossHair (symbolic execution of Python over z3) on contract functions of a harness module.

Each contract function is a private property over calls of the *real* repo code; its PEP316 docstring
holds the bound (pre:) and the assertion (post:).  One OS process per function, hard timeout.
Result classes:  confirmed  (Confirmed over all paths)  |  cex (counterexample call)  |  inconclusive
(Not confirmed / Unable to meet precondition / timeout).  A counterexample call expression is re-evaluated
concretely (plain Python, real repo code) by the caller before anything is reported.
"""
import ast
import os
import re
import subprocess
import sys
import time

HERE = os.path.dirname(os.path.abspath(__file__))
ROOT = os.path.dirname(HERE)


def contract_functions(path):
    src = open(path).read()
    tree = ast.parse(src)
    out = []
    for node in tree.body:
        if isinstance(node, ast.FunctionDef):
            doc = ast.get_docstring(node) or ""
            if "post:" in doc:
                out.append((node.name, node.lineno))
    return out


_CEX = re.compile(r"^(?P<file>[^:]+):(?P<line>\d+): error: (?P<msg>.*)$")


def run_one(path, fn, lineno, per_condition_timeout, repo, extra_env=None):
    env = dict(os.environ)
    env["PYTHONPATH"] = f"{ROOT}:{repo}"
    env["PYTHONHASHSEED"] = "0"
    if extra_env:
        env.update(extra_env)
    cmd = [sys.executable, "-W", "ignore", "-m", "crosshair", "check", "--report_all", "--per_condition_timeout",
           str(per_condition_timeout), "--per_path_timeout", str(max(2, per_condition_timeout // 4)), f"{path}:{lineno}"]
    t = time.time()
    try:
        p = subprocess.run(cmd, env=env, capture_output=True, text=True, timeout=per_condition_timeout * 3 + 60, cwd=ROOT)
        out = p.stdout + p.stderr
        rc = p.returncode
    except subprocess.TimeoutExpired as e:
        out = (e.stdout or "") + (e.stderr or "") if isinstance(e.stdout, str) else ""
        rc = -9
    dt = time.time() - t
    res = {"fn": fn, "wall_s": round(dt, 2), "rc": rc, "status": "inconclusive", "detail": out.strip()[-1500:]}
    if rc == -9:
        res["detail"] = "hard timeout"
        return res
    cex = None
    for line in out.splitlines():
        m = _CEX.match(line.strip())
        if m:
            msg = m.group("msg")
            if "Unable to meet precondition" in msg or "Not confirmed" in msg:
                continue
            cex = msg
            break
    if cex:
        res["status"] = "cex"
        res["message"] = cex
        m = re.search(r"when calling (.*?)(?: \(which returns .*\))?$", cex)
        res["call"] = m.group(1) if m else None
    elif "Confirmed over all paths" in out:
        res["status"] = "confirmed"
    elif "Unable to meet precondition" in out:
        res["status"] = "inconclusive"
        res["detail"] = "Unable to meet precondition"
    elif "Not confirmed" in out:
        res["status"] = "inconclusive"
        res["detail"] = "Not confirmed (paths remained after the time budget)"
    return res


def _job(a):
    return run_one(*a)


def run_module(path, per_condition_timeout, repo, only=None, nproc=16, extra_env=None):
    fns = [(n, l) for n, l in contract_functions(path) if only is None or n in only]
    jobs = [(path, n, l, per_condition_timeout, repo, extra_env) for n, l in fns]
    from concurrent.futures import ThreadPoolExecutor

    with ThreadPoolExecutor(max_workers=nproc) as ex:
        return list(ex.map(_job, jobs))


def replay_call(module, call):
    """Evaluate the counterexample call expression concretely in the harness module's namespace.
    Returns (reproduced: bool, detail)."""
    ns = dict(vars(module))
    try:
        v = eval(call, ns)
    except Exception as e:  # the contract function raised on a concrete input: also a failure of the contract
        return True, "raised %r" % (e,)
    return (v is False or v == False), "returned %r" % (v,)  # noqa: E712
