"""C27 Windowed and ordered window functions are computed per ordered partition.

Window specifications (0-2 partition columns, 1-2 order columns with every reversal pattern) x ordered window functions: each
backend is compared with an ORDER-FREE reference (vf.sym.refsem.ref_window_ordered: a row's position is the number of partition mates
at or before it in the declared lexicographic order, cumulative values are sums/maxima over those mates) under the premise that the
order is total within each partition (z3 premise: partition+order key tuples pairwise distinct, order keys non-null)."""
import itertools

from vf.sym import progs, simple

PROP = "C27"
T = "TableDescription(table_name='w', column_names=['g', 'h', 'o', 'p', 'x'])"
SCHEMA = {"w": [("g", "i", True), ("h", "i", True), ("o", "f", False), ("p", "i", False), ("x", "f", False)]}

FNS = {  # name -> (expression, reference fn, arg)
    "cumsum": ("x.cumsum()", "cumsum", None),
    "cummax": ("x.cummax()", "cummax", None),
    "cummin": ("x.cummin()", "cummin", None),
    "row_number": ("_row_number()", "row_number", None),
    "shift1": ("x.shift()", "shift", 1),
    "shift2": ("x.shift(2)", "shift", 2),
    "lead1": ("x.shift(-1)", "shift", -1),
}


def specs(tier):
    parts = [[], ["g"], ["g", "h"]]
    orders = [(["o"], []), (["o"], ["o"]), (["o", "p"], []), (["o", "p"], ["p"]), (["o", "p"], ["o"]), (["p", "o"], ["p", "o"])]
    if tier == "quick":
        return [(p, o, r) for p in parts for (o, r) in orders]
    return [(p, o, r) for p in parts for (o, r) in orders]


def ref_window_after_negation(tabs, nrows, table, negated, new_col, partition_by, order_by, reverse, fns):
    """reference for  extend({c: '-c'} or {new_col: '-c'})  followed by the windowed extend: the window reference on the table whose
    column is negated first (the declared order is the order of the values the window step SEES)"""
    from vf.sym import refsem
    from vf.sym.cell import Cell

    t2 = {k: dict(v) for k, v in tabs.items()}
    neg = [Cell(c.null, -c.val, c.kind) for c in tabs[table][negated]]
    t2[table][new_col or negated] = neg
    return refsem.ref_window_ordered(t2, nrows, table, partition_by, order_by, reverse, fns)


def ref_window_chain(tabs, nrows, table, steps):
    """the ordered-window reference applied step after step: steps = [(partition_by, order_by, reverse, fns), ...]"""
    from vf.sym import refsem

    cur, r = tabs, None
    for part, order, rev, fns in steps:
        r = refsem.ref_window_ordered(cur, nrows, table, part, order, rev, [tuple(f) for f in fns])
        cur = {table: {c: [row[i] for row in r.rows] for i, c in enumerate(r.cols)}}
    return r


# two ordered windows in a row whose specifications differ only in the PRIORITY of the order columns / in what is reversed / in the partition:
# the builder may fuse adjacent extends only when the window specifications are the same
CHAINS = [
    ("order_priority_swapped", [(["g"], ["o", "p"], []), (["g"], ["p", "o"], [])]),
    ("reverse_differs", [(["g"], ["o", "p"], ["p"]), (["g"], ["o", "p"], ["o"])]),
    ("same_order_other_partition", [(["g"], ["o"], []), (["g", "h"], ["o"], [])]),
    ("same_spec", [(["g"], ["o", "p"], []), (["g"], ["o", "p"], [])]),
]


def build_jobs(tier, seed, kf_on):
    jobs = []
    for label, specs_ in CHAINS:
        steps, src = [], T
        for i, (part, order, rev) in enumerate(specs_):
            fns = [(f"c{i}", "cumsum", "x", None), (f"r{i}", "row_number", None, None)]
            src += f".extend({{'c{i}': 'x.cumsum()', 'r{i}': '_row_number()'}}, partition_by={part!r}, order_by={order!r}, reverse={rev!r})"
            steps.append((part, order, rev, fns))
        keycols = sorted({c for part, order, rev in specs_ for c in part + order})
        for n in ([2, 3] if tier == "quick" else [2, 3, 4]):
            for bname, side in (("pandas", {"kind": "pandas", "src": src}), ("sqlite", {"kind": "sql", "src": src, "dialect": "sqlite"})):
                jobs.append(simple.tv_job(f"chain/{label}:{bname}@{n}", SCHEMA, {"w": n}, side,
                                          {"kind": "fn", "fn": "vf.checks.c27:ref_window_chain", "args": ["w", steps], "label": "window reference step after step"}, kf_on, tier,
                                          assume=[("distinct", "w", ["g", "o"]), ("distinct", "w", ["g", "p"])], max_paths=4000 if tier == "quick" else 30000,
                                          wall_s=60 if tier == "quick" else 600))
    # whole-partition aggregates written into an ORDERED window: where the builder accepts the step, every row must get its partition's
    # aggregate (not a running value); where it rejects the step there is nothing to decide
    for label, ops_, aggs in (("mean_size", {"m": "x.mean()", "n": "_size()"}, [("m", "mean", "x"), ("n", "size", None)]),
                              ("sum_max", {"s": "x.sum()", "mx": "x.max()"}, [("s", "sum", "x"), ("mx", "max", "x")])):
        for part, order, rev in ((["g"], ["o"], []), ([], ["o", "p"], ["p"])):
            src = f"{T}.extend({ops_!r}, partition_by={part!r}, order_by={order!r}, reverse={rev!r})"
            if progs.try_build(src) is None:
                continue
            ref = {"kind": "fn", "fn": "vf.sym.refsem:ref_window_group", "args": ["w", part, aggs], "label": "partition aggregate on every row"}
            for n in (2, 3):
                for bname, side in (("pandas", {"kind": "pandas", "src": src}), ("sqlite", {"kind": "sql", "src": src, "dialect": "sqlite"})):
                    jobs.append(simple.tv_job(f"group_aggregate_in_ordered_window/{label} part={part}:{bname}@{n}", SCHEMA, {"w": n}, side, ref, kf_on, tier,
                                              assume=[("distinct", "w", part + order)], max_paths=4000, wall_s=60))
    ns = [1, 2, 3] if tier == "quick" else [1, 2, 3, 4]
    groups = [["cumsum", "row_number", "shift1"], ["cummax", "cummin", "lead1", "shift2"]]
    # the window step directly after a plain extend that overwrites / creates the column it orders or partitions by ("in the declared order"
    # means the order of the values that step receives, whatever the SQL generator merges)
    ctx = [("o", None, [], ["o"], []), ("o", None, ["g"], ["o"], ["o"]), ("o", "o2", ["g"], ["o2"], []), ("p", None, ["g"], ["o", "p"], ["p"]), ("g", None, ["g"], ["o"], [])]
    for negated, new_col, part, order, rev in ctx:
        fl = ["cumsum", "row_number", "shift1"]
        ops = {f"v_{f}": FNS[f][0] for f in fl}
        src = f"{T}.extend({{{(new_col or negated)!r}: '-{negated}'}}).extend({ops!r}, partition_by={part!r}, order_by={order!r}, reverse={rev!r})"
        ref = {"kind": "fn", "fn": "vf.checks.c27:ref_window_after_negation",
               "args": ["w", negated, new_col, part, order, rev, [(f"v_{f}", FNS[f][1], (None if FNS[f][1] == "row_number" else "x"), FNS[f][2]) for f in fl]],
               "label": "window reference on the negated column"}
        keycols = [negated if c == new_col else c for c in part + order]
        for n in ([2, 3] if tier == "quick" else [2, 3, 4]):
            for bname, side in (("pandas", {"kind": "pandas", "src": src}), ("sqlite", {"kind": "sql", "src": src, "dialect": "sqlite"}),
                                ("postgresql-model", {"kind": "sql", "src": src, "dialect": "postgresql"})):
                jobs.append(simple.tv_job(f"after extend {new_col or negated}=-{negated}: part={part} order={order} rev={rev}:{bname}@{n}", SCHEMA, {"w": n}, side, ref, kf_on, tier,
                                          assume=[("distinct", "w", keycols), ("nonnull", "w", [negated])], validate=(0 if bname.startswith("postgresql") else 1),
                                          max_paths=4000 if tier == "quick" else 30000, wall_s=60 if tier == "quick" else 600))
    for part, order, rev in specs(tier):
        for fl in groups:
            ops = {f"v_{f}": FNS[f][0] for f in fl}
            src = f"{T}.extend({ops!r}, partition_by={part!r}, order_by={order!r}, reverse={rev!r})"
            ref = {"kind": "fn", "fn": "vf.sym.refsem:ref_window_ordered",
                   "args": ["w", part, order, rev, [(f"v_{f}", FNS[f][1], (None if FNS[f][1] == "row_number" else "x"), FNS[f][2]) for f in fl]],
                   "label": "order-free window reference"}
            assume = [("distinct", "w", part + order)]
            for n in ns:
                for bname, side in (("pandas", {"kind": "pandas", "src": src}), ("sqlite", {"kind": "sql", "src": src, "dialect": "sqlite"}),
                                    ("postgresql-model", {"kind": "sql", "src": src, "dialect": "postgresql"})):
                    if bname == "postgresql-model" and n > 2 and tier == "quick":
                        continue
                    jobs.append(simple.tv_job(f"{'/'.join(fl)} part={part} order={order} rev={rev}:{bname}@{n}", SCHEMA, {"w": n}, side, ref, kf_on, tier,
                                              assume=assume, validate=(0 if bname.startswith("postgresql") else 1), max_paths=4000 if tier == "quick" else 30000,
                                              wall_s=60 if tier == "quick" else 600))
    return jobs


def run(tier):
    return simple.run_tv_check(
        PROP, tier, build_jobs,
        "Ordered windowed extend (cumsum cummax cummin _row_number shift(+1,+2,-1)) for partition specs of 0-2 columns and 1-2 order columns with "
        "all reversal patterns: real Pandas executor (sort/groupby/transform/restore-by-index over the pandas model), SQLite SQL and the PostgreSQL "
        "model against an order-free reference, under the total-order premise; z3 decides per structural path for all cell values.",
        {"functions_encoded": ["pandas_base._extend_step (window branch: col_list, ascending, sort_values, groupby().transform/cumcount, _data_algebra_orig_index restore)",
                               "sql_model.extend_to_near_sql window_term (PARTITION BY / ORDER BY / DESC), _db_lag_expr", "reference: vf.sym.refsem.ref_window_ordered"],
         "bounds": {"rows": "1..3 quick / 1..4 thorough", "partition_columns": "0..2 (nullable int)", "order_columns": "1..2, every reversal pattern",
                    "value_column": "non-null real (the null-value behaviour of cumulative functions is the recorded finding cumulative_null_value, decided in C01)"}},
        ["total order premise: (partition, order) key tuples pairwise distinct, order keys non-null",
         "first/last/bfill/ffill/rank/cumprod/cumcount are Pandas-only in the catalog (no second backend to agree with): not compared here",
         "models as in C01; PostgreSQL model-only; Polars windows raise under polars 1.44 (Expr.cumsum missing) and are covered in C03"])


def replay(path):
    return simple.replay_tv(PROP, path)
