"""C20 data spaces behave like a keyed store of tables.

Deciding engine 1 (exhaustive within bound): forksym runs the contract functions of vf/ch/c20_spaces.py -- which call
the real DataModelSpace / DBSpace methods -- from an *arbitrary symbolic state*: keys are z3 Strings of any length
(Name proxies inside an association-list dict), table contents are opaque z3 Ints, the user key is an arbitrary
string or None; the temp-name counter and allow_overwrite are enumerated.  One inductive step per operation.
Deciding engine 2 (secondary, bug-finding): CrossHair on the same contract functions with a symbolic counter and
symbolic Dict[str,int] state (bounded string lengths); "Not confirmed" is recorded as inconclusive.
Counterexamples are replayed concretely on the contract function (plain dict/str/int) and, where expressible,
on the real DataModelSpace with pandas frames / real DBSpace on in-memory SQLite.
"""
import importlib
import itertools
import json
import os

import z3

from vf import forksym, chrun
from vf.common import Report, REPO
from vf.forksym import Name, SymInt, SymDict, Harness

MOD = "vf.ch.c20_spaces"
FNS = ["dms_insert", "dms_execute", "dms_remove_read", "dbs_insert", "dbs_execute", "dbs_remove_read"]
TWINS = ["twin_dms_insert_changes_nothing", "twin_dbs_execute_changes_nothing"]


class H(Harness):
    def __init__(self, fn, npre, n, keykind, ow, srci):
        self.fn, self.npre, self.n, self.keykind, self.ow, self.srci = fn, npre, n, keykind, ow, srci

    def syms(self):
        ks = [z3.String(f"k{i}") for i in range(self.npre)]
        vs = [z3.Int(f"v{i}") for i in range(self.npre)]
        return ks, vs, z3.String("key"), z3.Int("v"), z3.Int("delta")

    def run(self, eng):
        m = importlib.import_module(MOD)
        m.MAP = SymDict
        ks, vs, key, v, delta = self.syms()
        names = [Name(f"k{i}", ks[i]) for i in range(self.npre)]
        pre = SymDict([(names[i], SymInt(vs[i])) for i in range(self.npre)])
        if len(pre) != self.npre:
            raise forksym.PathAbort()  # duplicate keys: that state is the smaller map, explored separately
        k = None if self.keykind == "none" else Name("key", key)
        fn = getattr(m, self.fn)
        if "_insert" in self.fn:
            return bool(fn(pre, self.n, k, SymInt(v), self.ow))
        if "_execute" in self.fn:
            return bool(fn(pre, self.n, k, names[self.srci], SymInt(delta), self.ow))
        return bool(fn(pre, self.n, Name("key", key)))

    def concretize(self, model, info):
        ks, vs, key, v, delta = self.syms()
        S = lambda e: model.eval(e, model_completion=True).as_string()
        I = lambda e: model.eval(e, model_completion=True).as_long()
        return {"fn": self.fn, "pre": [[S(k), I(x)] for k, x in zip(ks, vs)], "n": self.n,
                "key": None if self.keykind == "none" else S(key), "v": I(v), "delta": I(delta), "ow": self.ow,
                "src": S(ks[self.srci]) if self.npre else None}


def make(*a):
    return H(*a)


def call_concrete(inp):
    """replay on the contract function with plain python values (stub model / dict-backed handle)"""
    m = importlib.import_module(MOD)
    m.MAP = dict
    pre = {k: v for k, v in inp["pre"]}
    fn = getattr(m, inp["fn"])
    try:
        if "_insert" in inp["fn"]:
            return bool(fn(pre, inp["n"], inp["key"], inp["v"], inp["ow"]))
        if "_execute" in inp["fn"]:
            return bool(fn(pre, inp["n"], inp["key"], inp["src"], inp["delta"], inp["ow"]))
        return bool(fn(pre, inp["n"], inp["key"] if inp["key"] is not None else ""))
    except Exception as e:
        return False


def real_replay(inp):
    """same step on the real spaces with pandas frames (DataModelSpace) / in-memory SQLite (DBSpace).
    returns (holds, detail) or (None, reason) when the input cannot be expressed (e.g. unusable table names)."""
    import pandas as pd
    from data_algebra.data_model_space import DataModelSpace
    from data_algebra.db_space import DBSpace
    import data_algebra.data_ops

    importlib.reload(data_algebra.data_ops) if not hasattr(data_algebra.data_ops.describe_table, "__code__") else None
    pre = {k: v for k, v in inp["pre"]}
    allkeys = list(pre) + ([inp["key"]] if inp["key"] else [])
    if any((not k) or any(ch in k for ch in '"\x00') for k in allkeys):
        return None, "key not usable as a real table name"
    fr = lambda x: pd.DataFrame({"v": [x]})
    val = lambda d: int(d["v"].iloc[0])
    kind = inp["fn"][:3]
    sp = DataModelSpace() if kind == "dms" else DBSpace()
    try:
        for k, x in pre.items():
            sp.insert(key=k, value=fr(x))
        sp.n_tmp = inp["n"]
        before = {k: val(sp.retrieve(k)) for k in sp.keys()}
        op = inp["fn"][4:]
        raised = None
        newkey = None
        try:
            if op == "insert":
                newkey = sp.insert(key=inp["key"], value=fr(inp["v"]), allow_overwrite=inp["ow"]).table_name
                want = inp["v"]
            elif op == "execute":
                ops = sp.describe(inp["src"]).extend({"v": f"v + ({inp['delta']})"})
                newkey = sp.execute(ops, key=inp["key"], allow_overwrite=inp["ow"]).table_name
                want = pre[inp["src"]] + inp["delta"]
            else:
                return None, "read/remove step has no separate real replay"
        except Exception as e:
            raised = e
        after = {k: val(sp.retrieve(k)) for k in sp.keys()}
        if raised is not None:
            legit = inp["key"] is not None and not inp["ow"] and inp["key"] in pre
            return (legit and after == before), f"raised {raised!r}; before={before} after={after}"
        exp = dict(before)
        exp[newkey] = want
        ok = after == exp and not (inp["key"] is None and newkey in before) and not ((not inp["ow"]) and newkey in before)
        return ok, f"new key {newkey!r}; before={before} after={after} expected={exp}"
    finally:
        try:
            sp.close()
        except Exception:
            pass


def _job(j):
    st, res = forksym.explore_harness("vf.checks.c20:make", j, nproc=1, max_paths=20000, query_timeout_ms=10000)
    return j, st, res


def run(tier):
    rep = Report("C20", "other")
    sizes = [0, 1, 2] if tier == "quick" else [0, 1, 2, 3]
    counters = [0, 1] if tier == "quick" else [0, 1, 2, 7]
    jobs = []
    for fn in FNS + TWINS:
        for npre in sizes:
            for n in counters:
                if fn.endswith("remove_read"):
                    jobs.append((fn, npre, n, "str", True, 0))
                    continue
                for keykind in ("none", "str"):
                    for ow in (True, False):
                        if "execute" in fn:
                            for srci in range(npre):
                                jobs.append((fn, npre, n, keykind, ow, srci))
                        else:
                            jobs.append((fn, npre, n, keykind, ow, 0))
    results = forksym.run_parallel(jobs, _job, nproc=16, chunksize=2)
    total = forksym.Stats()
    samples = []
    twin_refuted = set()
    seen = set()
    for j, st, res in results:
        fn = j[0]
        if fn in TWINS:
            if any(r["status"] == "cex" for r in res):
                twin_refuted.add(fn)
            continue
        total.add(st)
        if len(samples) < 5 and st.paths > 4:
            samples.append({"step": fn, "|state|": j[1], "counter": j[2], "key": j[3], "allow_overwrite": j[4], "paths": st.paths, "discharged": st.discharged})
        for r in res:
            if r["status"] in ("cex", "error") and r["input"] and "fn" in r["input"]:
                inp = r["input"]
                sig = json.dumps(inp, sort_keys=True)
                if sig in seen:
                    continue
                seen.add(sig)
                if call_concrete(inp):
                    rep.harness_error(f"counterexample did not reproduce: {inp} ({r['status']} {r['why'][-300:]})")
                    continue
                rr, detail = (None, "")
                try:
                    rr, detail = real_replay(inp)
                except Exception as e:
                    detail = f"real replay failed to run: {e!r}"
                rep.violation({"property": "C20", "input": inp, "real_space_replay_holds": rr, "real_space_detail": detail, "why": r["why"][-1500:]},
                              f"{inp['fn']} from state {dict(inp['pre'])} counter={inp['n']} key={inp['key']!r} allow_overwrite={inp['ow']}"
                              + (f" src={inp['src']!r}" if 'execute' in inp['fn'] else ""))
            elif r["status"] != "discharged":
                rep.harness_error(f"{j}: {r['status']} {r['why'][-300:]}")
    for t in TWINS:
        if t not in twin_refuted:
            rep.harness_error(f"vacuity: twin {t} not refuted")
    # ---- secondary: CrossHair with symbolic counter / bounded strings
    path = os.path.join(os.path.dirname(os.path.dirname(__file__)), "ch", "c20_spaces.py")
    tmo = 25 if tier == "quick" else 150
    ch = chrun.run_module(path, tmo, REPO, only=FNS, nproc=8)
    mod = importlib.import_module(MOD)
    mod.MAP = dict
    ch_summary = []
    for r in ch:
        ch_summary.append({k: r.get(k) for k in ("fn", "status", "wall_s", "call")})
        if r["status"] == "cex" and r.get("call"):
            ok, detail = chrun.replay_call(mod, r["call"])
            if ok:
                rep.violation({"property": "C20", "crosshair_call": r["call"], "detail": detail}, f"CrossHair: {r['call']} {detail}")
            else:
                rep.harness_error(f"CrossHair counterexample did not reproduce: {r['call']}")
    rep.coverage = {
        "explanation": "One inductive step per data-space operation (insert / execute / remove+retrieve+describe+keys) from an arbitrary "
                       "symbolic state, for the real DataModelSpace and the real DBSpace (dict-backed stub database). forksym explores every "
                       "path (key-equality pattern incl. equality with the generated da_temp_<n> names); each path's verdict is a z3 query. "
                       "Reference semantics: map update; refused writes leave the state unchanged; automatic names are fresh; "
                       "execute evaluates on the pre-state contents. CrossHair re-checks the same contracts with a symbolic counter.",
        "functions_encoded": ["DataModelSpace.insert/execute/remove/retrieve/describe/keys/_new_tmp_key", "DBSpace.insert/execute/remove/retrieve/describe/keys/model_table/_new_tmp_key"],
        "bounds": {"state_entries": sizes, "temp_counter_values_enumerated": counters, "keys": "arbitrary strings (z3 String theory, any length)",
                   "crosshair": f"|state|<=2 (<=3 for reads), key length<=10, counter any n>=0, {tmo}s per contract"},
        "obligations": total.paths, "discharged": total.discharged, "unknown": total.unknown, "truncated": total.truncated,
        "paths": total.paths, "branch_queries": total.branch_queries, "assert_queries": total.assert_queries, "solver_s": round(total.solver_s, 2),
        "harness_configurations": len(jobs),
        "crosshair": ch_summary,
        "crosshair_inconclusive": sum(1 for r in ch if r["status"] == "inconclusive"),
        "samples": samples,
        "evaluations": total.paths, "distinct_nontrivial": total.paths,
        "rule": "one evaluation = one feasible path of one operation from a symbolic state",
        "exhaustive": not total.truncated,
    }
    rep.assumptions = ["table contents are opaque integers; stub data model accepts every value; describe_table stubbed",
                       "DBSpace: database handle is a dict-backed stub honouring the DBHandle contract; every table in the database is an entry of the space",
                       "induction: every Dict[str,int] with any counter>=0 is treated as reachable",
                       "close()/drop_tables_on_close and model_table() on foreign tables are not covered"]
    return rep.finish()


def replay(path):
    d = json.load(open(path))
    if "input" in d:
        ok = call_concrete(d["input"])
        print("input", d["input"], "holds" if ok else "FAILS")
        try:
            print("real spaces:", real_replay(d["input"]))
        except Exception as e:
            print("real replay error", e)
    else:
        mod = importlib.import_module(MOD)
        bad, detail = chrun.replay_call(mod, d["crosshair_call"])
        ok = not bad
        print(d["crosshair_call"], detail)
    if not ok:
        print(f"VIOLATION property=C20 replay={path}")
        return 1
    return 0
