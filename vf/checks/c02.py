"""C02 PostgreSQL SQL computes the same table as the Pandas executor  (MODEL-ONLY semantics: there is no PostgreSQL server here).

Same construction as C01 with the real PostgreSQLModel: its SQL text (native RIGHT/FULL JOIN, NULLIF division, CAST AS BIGINT, LN,
CTE elimination enabled) is interpreted under PostgreSQL semantics written from the PostgreSQL documentation and compared by z3 with
the real Pandas executor over the pandas model.  Counterexamples are replayed with the SQL executed on SQLite >= 3.39 as a STAND-IN
engine; only those that reproduce there are reported, the others are listed as model-only disagreements."""
from vf.checks import c01
from vf.sym import progs, simple

PROP = "C02"

OPTION_SETS = [None, {"use_cte_elim": True}, {"use_with": False}]


def build_jobs(tier, seed, kf_on):
    from vf.checks import c04

    jobs = []
    # DAG programs that exercise CTE elimination (same step text on different sources, sub-pipelines used twice): every option set
    for label, src, tables in c04.dag_programs():
        schema = {t: progs.SCHEMA[t] for t in tables}
        for o in OPTION_SETS:
            rows = {t: 2 for t in tables}
            jobs.append(simple.tv_job(f"dag/{label} opts={o}", schema, rows, {"kind": "pandas", "src": src},
                                      {"kind": "sql", "src": src, "dialect": "postgresql", "options": o}, kf_on, tier,
                                      max_paths=1200 if tier == "quick" else 6000, wall_s=60 if tier == "quick" else 180))
    ps = c01.programs(tier, seed)
    for idx, (label, src, tables) in enumerate(ps):
        depth = label.count("+") + 1
        schema = {t: progs.SCHEMA[t] for t in tables}
        if tier == "quick":
            if depth == 2 and not progs.quick_keep(label, 2):
                continue  # quick tier: about every second 2-step program, chosen by content (all in thorough); single steps and curated triples always
            vecs = [{t: (2 if i < 2 else 1) for i, t in enumerate(tables)}]
            if depth == 1:
                vecs += [{t: 0 for t in tables}, {t: 1 for t in tables}]
        else:
            vecs = [{t: (2 if i < 2 else 1) for i, t in enumerate(tables)}, {t: 0 for t in tables}, {t: 1 for t in tables}, {t: (3 if i == 0 else 1) for i, t in enumerate(tables)}]
        opts = OPTION_SETS[sum(label.encode()) % len(OPTION_SETS)] if tier == "quick" else None
        for rows in vecs:
            for o in ([opts] if tier == "quick" else OPTION_SETS):
                rid = ",".join(f"{t}={n}" for t, n in rows.items())
                jobs.append(simple.tv_job(f"{label}@{rid} opts={o}", schema, rows, {"kind": "pandas", "src": src},
                                          {"kind": "sql", "src": src, "dialect": "postgresql", "options": o}, kf_on, tier,
                                          max_paths=1200 if tier == "quick" else 6000, wall_s=40 if tier == "quick" else 180))
    return jobs


def run(tier):
    return simple.run_tv_check(
        PROP, tier, build_jobs,
        "Real Pandas executor over the pandas model vs the SQL text of the real PostgreSQLModel.to_sql (default options, use_cte_elim=True, use_with=False) "
        "interpreted under a PostgreSQL semantics model; z3 decides table equality per structural path; counterexamples are replayed on SQLite >= 3.39 as "
        "stand-in engine and reported only if they reproduce there.",
        {"functions_encoded": ["PostgreSQL.PostgreSQLModel (formatters, op replacements)", "sql_model.SQLModel.*_to_near_sql (generic natural_join: native RIGHT/FULL)",
                               "near_sql.NearSQLContainer.to_with_form_stub (cte_cache, CTE elimination)", "pandas_base executor"],
         "bounds": {"programs": "as C01 (quick: single steps, every second 2-step program, curated triples)", "rows": "0..2 per table (3 in thorough)",
                    "options": "None / use_cte_elim / use_with=False"},
         "model_only": "execution on a real PostgreSQL 16 server is NOT observed (none available); model_divergences below = disagreements that did not reproduce on the stand-in"},
        ["PostgreSQL semantics are a model written from the documentation (three-valued logic, NULLS LAST ascending, integer division, NULLIF, BIGINT cast, "
         "LN/LOG, aggregates, default window frame); not validated against a server",
         "replay engine is SQLite 3.40 with LN/STDDEV_SAMP/VAR_SAMP registered: PG-only behaviours cannot be confirmed and are not reported",
         "other assumptions as C01"], min_conclusive=0.3)


def replay(path):
    return simple.replay_tv(PROP, path)
