"""C18 Results ignore input row order (and the input index), and order_rows orders and limits.

For every program of the bounded grammar: the same backend evaluates the pipeline on symbolic tables T and on a row permutation of T
(every non-identity permutation of <= 3 rows), and -- for the Pandas executor -- on T carrying a non-default index (offset / reversed /
strided RangeIndex, duplicate and shuffled labels; index alignment on column assignment is part of the pandas model).  z3 decides per
structural path that the results are the same multiset of rows (the same sequence after a final order_rows).  Window orders must be
total (ties / null order keys close the path as outside the claim, as the property states)."""
import itertools

from vf.sym import progs, simple

PROP = "C18"

INDEXES = {  # row count -> index variants
    1: [[7]],
    2: [[5, 6], [1, 0], [3, 3], [10, 12]],
    3: [[100, 101, 102], [2, 1, 0], [0, 2, 4], [5, 5, 3], [2, 0, 1]],
}


def programs(tier, seed):
    ps = progs.enumerate_programs(1)
    pairs = progs.enumerate_programs(2)
    if tier == "quick":
        pairs = [p for p in pairs if any(k in p[0] for k in ("win_", "ord_", "prj_", "join_left", "cat"))]
        pairs = [p for p in pairs if progs.quick_keep(p[0], 3)]
    ps += pairs
    for tr in progs.CURATED:
        src = progs.make(tr)
        ops = progs.try_build(src)
        if ops is not None:
            ps.append(("+".join(tr), src, progs.tables_of(ops)))
    if tier == "thorough":
        ps += progs.random_programs(seed, 200, 3, 4)
    return ps


def ref_limit_rows(tabs, nrows, table, limit):
    """row-count oracle for '... order_rows(limit=k)' on a row-preserving prefix: exactly min(k, number of input rows) rows"""
    from vf.sym import rel
    from vf.sym.cell import null_cell

    n = len(next(iter(tabs[table].values()))) if tabs[table] else 0
    return rel.SideResult(["_"], [[null_cell("i")] for _ in range(min(limit, n))], ordered=False)


LIMIT_CHAINS = [  # (label, suffix, limit of the LAST order_rows): the limit must survive whatever the builder does with the earlier steps
    ("order_then_limit1", ".order_rows(['x']).order_rows(['y'], limit=1)", 1),
    ("order_then_rev_limit2", ".order_rows(['x']).order_rows(['y'], reverse=['y'], limit=2)", 2),
    ("order_order_limit1", ".order_rows(['x']).order_rows(['g']).order_rows(['y'], limit=1)", 1),
    ("limit2_then_limit1", ".order_rows(['x'], limit=2).order_rows(['y'], limit=1)", 1),
    ("extend_order_limit1", ".extend({'w': 'x + 1'}).order_rows(['w']).order_rows(['y'], limit=1)", 1),
    ("limit0", ".order_rows(['x']).order_rows(['y'], limit=0)", 0),
]


def build_jobs(tier, seed, kf_on):
    jobs = []
    for label, suf, k in LIMIT_CHAINS:
        for n in (0, 1, 2, 3):
            for bname, side in (("pandas", {"kind": "pandas", "src": progs.D + suf}), ("sqlite", {"kind": "sql", "src": progs.D + suf, "dialect": "sqlite"})):
                jobs.append(simple.tv_job(f"limit/{label}:{bname}@{n}", {"d": progs.SCHEMA["d"]}, {"d": n}, side,
                                          {"kind": "fn", "fn": "vf.checks.c18:ref_limit_rows", "args": ["d", k], "label": "min(limit, rows) rows"},
                                          kf_on, tier, compare="rowcount", max_paths=1200, wall_s=40))
    for label, src, tables in programs(tier, seed):
        schema = {t: progs.SCHEMA[t] for t in tables}
        single = len(tables) == 1
        n = 3 if (single and ("+" not in label or tier != "quick")) else 2
        rows = {t: (n if i == 0 else min(n, 2)) for i, t in enumerate(tables)}
        perms = [p for p in itertools.permutations(range(n)) if list(p) != list(range(n))]
        if tier == "quick":
            perms = perms[:1] + perms[-1:] if len(perms) > 1 else perms
        first = tables[0]
        for p in perms:
            pm = {first: {"perm": list(p)}}
            jobs.append(simple.tv_job(f"{label}:pandas perm{p}", schema, rows, {"kind": "pandas", "src": src}, {"kind": "pandas", "src": src, "inmap": pm},
                                      kf_on, tier, max_paths=1200 if tier == "quick" else 8000, wall_s=40 if tier == "quick" else 200))
        p = perms[-1]
        jobs.append(simple.tv_job(f"{label}:sqlite perm{p}", schema, rows, {"kind": "sql", "src": src, "dialect": "sqlite"},
                                  {"kind": "sql", "src": src, "dialect": "sqlite", "inmap": {first: {"perm": list(p)}}}, kf_on, tier,
                                  max_paths=1200 if tier == "quick" else 8000, wall_s=40))
        idxs = INDEXES[n] if tier != "quick" else INDEXES[n][: (3 if "+" not in label else 2)]
        for ix in idxs:
            im = {first: {"index": ix}}
            if len(tables) > 1:
                im[tables[1]] = {"index": INDEXES[rows[tables[1]]][-1]}
            jobs.append(simple.tv_job(f"{label}:pandas index{ix}", schema, rows, {"kind": "pandas", "src": src}, {"kind": "pandas", "src": src, "inmap": im},
                                      kf_on, tier, max_paths=1200 if tier == "quick" else 8000, wall_s=40))
    return jobs


def run(tier):
    return simple.run_tv_check(
        PROP, tier, build_jobs,
        "sem(P)(T) versus sem(P)(permuted T) and sem(P)(T with a non-default index) on the same backend, over symbolic tables: Pandas executor over the "
        "pandas model (index labels and label alignment modelled), SQLite SQL text; z3 decides multiset (positional after order_rows) equality per path.",
        {"functions_encoded": ["pandas_base._table_step / clean_copy / drop_indices", "pandas_base._extend_step window sort-and-restore (_data_algebra_orig_index)",
                               "pandas_base._order_rows_step; sql_model.order_to_near_sql"],
         "bounds": {"rows": "3 for single-table programs (2 for two-step programs in the quick tier), 2 per table otherwise", "permutations": "all non-identity permutations thorough / 2 quick",
                    "index_variants": INDEXES}},
        ["models as in C01", "window orders total, order keys non-null (otherwise outside the claim); order_rows ties are compared as multisets; a limit cutting through tied rows is outside the claim",
         "Polars row-order independence is decided in C03 via agreement with Pandas"])


def replay(path):
    return simple.replay_tv(PROP, path)
