"""C15 Results do not depend on how tables and columns are named.

Renaming vocabulary = the names the executors and the SQL generator use internally, HARVESTED FROM THE CURRENT SOURCE (string constants
and f-string templates in pandas_base.py, polars_model.py, sql_model.py, SQLite.py: scratch columns, join suffixes, generated CTE /
alias names) plus neutral names.  For each program P and injective renaming r of one column (or one table): the backend evaluates P on
symbolic T and r(P) on r(T); z3 decides r(sem(P)(T)) == sem(rP)(rT) for all cell values per structural path.  Backends: Pandas executor
over the pandas model and the SQLite SQL text."""
import re

from vf.sym import load, progs, simple

PROP = "C15"

# a neutral name, plus names that are only column names when the generator quotes them (SQL keywords / literals)
NEUTRAL_COLS = ["renamed_col", "null", "order", "current_date", "true", "select", "group"]
NEUTRAL_TABLES = ["renamed_table"]


def harvest():
    """internal names found in the repository's current source"""
    import os

    root = os.path.join(load.repo_root(), "data_algebra")
    cols, tables = set(), set()
    pat_str = re.compile(r"""["']([A-Za-z_][A-Za-z0-9_]*)["']""")
    for fn in ("pandas_base.py", "polars_model.py"):
        src = open(os.path.join(root, fn)).read()
        for m in pat_str.finditer(src):
            s = m.group(1)
            if "data_algebra" in s or s.startswith("_da_") or s.startswith("_data_") or "_tmp_" in s or s.endswith("_tmp") or "temp" in s:
                cols.add(s)
        for m in re.finditer(r"""["']([A-Za-z_][A-Za-z0-9_]*_)["']\s*\+\s*str\(""", src):
            cols.add(m.group(1) + "0")
        for m in re.finditer(r"""f["']([A-Za-z_][A-Za-z0-9_]*)\{""", src):
            if "da_" in m.group(1) or "temp" in m.group(1):
                cols.add(m.group(1) + "0")
        for m in re.finditer(r"""\+\s*["'](_[A-Za-z0-9_]+)["']""", src):  # join suffixes: <col> + "_tmp_right_col"
            for base in ("x", "y", "g"):
                cols.add(base + m.group(1))
        for m in re.finditer(r"""suffix=["'](_[A-Za-z0-9_]+)["']""", src):
            for base in ("x", "y", "g"):
                cols.add(base + m.group(1))
        for m in re.finditer(r"""f["']\{c\}(_[A-Za-z0-9_]+)["']""", src):
            for base in ("x", "g"):
                cols.add(base + m.group(1))
    for fn in ("sql_model.py", "SQLite.py", "near_sql.py"):
        src = open(os.path.join(root, fn)).read()
        for m in re.finditer(r"""["']([a-z_]+_)["']\s*\+\s*str\(temp_id_source""", src):
            tables.update({m.group(1) + "0", m.group(1) + "1", m.group(1) + "2"})
        for m in re.finditer(r"""f["']([a-z_]+_)\{temp_id_source""", src):
            tables.update({m.group(1) + "0", m.group(1) + "1"})
    bad = {"str", "int64", "float", "coerce", "ignore", "default_data_model"}
    cols = {c for c in cols if c not in bad and re.fullmatch(r"[A-Za-z_][A-Za-z0-9_]*", c)}
    return sorted(cols), sorted(tables)


def rename_src(src, col_map, table_map):
    out = src
    for old, new in table_map.items():
        out = out.replace(f"table_name='{old}'", f"table_name='{new}'")
    for old, new in col_map.items():
        pat = re.compile(r"(table_name=')?(?<![A-Za-z0-9_.])" + re.escape(old) + r"(?![A-Za-z0-9_(])")
        out = pat.sub(lambda m: m.group(0) if m.group(1) else new, out)  # never touch table names when renaming a column
    return out


def programs(tier):
    names = ["ext_add", "ext_over", "ext_minmax", "win_cumsum", "win_rownum", "win_sum", "prj_sum", "prj_all", "prj_two", "prj_keys", "sel_gt", "cols_drop", "cols_swap",
             "ord_lim", "join_inner", "join_left", "join_right", "join_full", "join_cross", "join_shared", "join_diffkey", "cat", "cat_id", "ext_const"]
    ps = [(n, progs.make([n])) for n in names]
    pairs = [("ext_add", "prj_sum"), ("join_left", "prj_size"), ("join_shared", "win_sum"), ("prj_sum", "join_left"), ("cat_id", "prj_sum"), ("win_rownum", "sel_gt"),
             ("ext_over", "ext_add"), ("join_left", "join_diffkey"), ("prj_all", "ext_const"), ("sel_gt", "join_full")]
    ps += [("+".join(p), progs.make(p)) for p in pairs]
    if tier == "thorough":
        ps += [(l, s) for l, s, _ in progs.enumerate_programs(2)[::4]]
    return ps


def build_jobs(tier, seed, kf_on):
    cols_vocab, tables_vocab = harvest()
    neutral = list(NEUTRAL_COLS)
    if "sqlite_column_named_true" in kf_on:
        # recorded finding (known_findings.json, replayed on the real engine before it is printed): SQLite cannot carry a column called true / false
        # through a sub-query.  Those two names are then not renamed TO; every other keyword-like name still is.
        neutral = [n for n in neutral if n not in ("true", "false")]
    cols_vocab = cols_vocab + neutral
    tables_vocab = tables_vocab + NEUTRAL_TABLES
    jobs = []
    k = 0
    for label, src in programs(tier):
        ops = progs.try_build(src)
        if ops is None:
            continue
        tables = progs.tables_of(ops)
        schema = {t: progs.SCHEMA[t] for t in tables}
        rows = {t: 2 for t in tables}
        renamings = []
        all_cols = sorted({c for t in tables for c, _, _ in progs.SCHEMA[t]})
        produced = set(ops.column_names)
        for c in all_cols:
            cand = [v for v in cols_vocab]
            if tier == "quick":
                cand = [cols_vocab[(k + i * 7) % len(cols_vocab)] for i in range(5)] + neutral
                k += 1
            for v in dict.fromkeys(cand):
                renamings.append(({c: v}, {}))
        # columns the pipeline CREATES are user-chosen names too (C15: no user column can be captured by a temporary name): every internal name
        for c in sorted(produced - set(all_cols)):
            if f"'{c}'" not in src:
                continue  # a default name the pipeline text does not spell out (concat_rows' source_name): renaming the text would not rename it
            for v in cols_vocab:
                renamings.append(({c: v}, {}))
        for t in tables:
            cand = tables_vocab if tier != "quick" else [tables_vocab[(k + i * 5) % len(tables_vocab)] for i in range(4)] + NEUTRAL_TABLES
            k += 1
            for v in dict.fromkeys(cand):
                renamings.append(({}, {t: v}))
        if len(tables) >= 2:
            # two tables renamed at once to numbered internal names (the generator numbers its own views above the numbered table names it sees):
            # ascending and descending numbers, same and different prefixes
            prefixes = sorted({re.sub(r"_\d+$", "", v) for v in tables_vocab if re.search(r"_\d+$", v)})
            pick = prefixes if tier != "quick" else [p for p in prefixes if p in ("extend", "natural_join", "concat_rows", "rename", "project")] or prefixes[:4]
            for p in pick:
                for (na, nb) in ((f"{p}_0", f"{p}_1"), (f"{p}_1", f"{p}_0"), ("t_0", f"{p}_1"), (f"{p}_2", "u_1"), ("t_1", f"{p}_2")):
                    renamings.append(({}, {tables[0]: na, tables[1]: nb}))
        for cm, tm in renamings:
            src2 = rename_src(src, cm, tm)
            if progs.try_build(src2) is None:
                continue  # the renamed text is not a pipeline (name clash with another user column): not an injective renaming of P
            inmap = {t: {"table": tm.get(t, t), "rename": {c: cm[c] for c, _, _ in progs.SCHEMA[t] if c in cm}} for t in tables}
            outmap = {"rename": cm}
            tag = f"{list(cm.items()) or list(tm.items())}"
            for bname, mk in (("pandas", lambda s, **kw: dict({"kind": "pandas", "src": s}, **kw)), ("sqlite", lambda s, **kw: dict({"kind": "sql", "src": s, "dialect": "sqlite"}, **kw))):
                jobs.append(simple.tv_job(f"{label} {tag}:{bname}", schema, rows, mk(src, outmap=outmap), mk(src2, inmap=inmap), kf_on, tier,
                                          max_paths=300 if tier == "quick" else 3000, wall_s=60, renaming={"cols": cm, "tables": tm}))
    return jobs


def run(tier):
    cols_vocab, tables_vocab = harvest()
    return simple.run_tv_check(
        PROP, tier, build_jobs,
        "r(sem(P)(T)) versus sem(rP)(rT) for injective renamings r of one column / table into the internal-name vocabulary harvested from the current source; "
        "z3 decides table equality per structural path; Pandas executor over the pandas model and SQLite SQL text.",
        {"functions_encoded": ["pandas_base._extend_step/_project_step/_natural_join_step/_concat_rows_step scratch columns and suffixes",
                               "sql_model view_name / join_source_* / table_reference_* naming; near_sql CTE sequencing"],
         "harvested_column_vocabulary": cols_vocab, "harvested_table_vocabulary": tables_vocab, "bounds": {"rows": 2, "renamings": "one column or one table at a time"}},
        ["models as in C01", "a renaming whose text no longer builds (clash with another user column) is not an injective renaming of that program and is skipped",
         "Polars scratch names are harvested too; the Polars executor itself is compared in C03"], min_conclusive=0.3)


def replay(path):
    return simple.replay_tv(PROP, path)
