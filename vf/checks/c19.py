"""C19 Evaluation never modifies the caller's tables and is repeatable.

The real Pandas executor (current source) runs over the pandas model on caller-owned symbolic frames (arbitrary non-default index).
Every in-place API of the model (__setitem__, __delitem__, .loc[...]=, .columns=, in-place reset_index/drop) applied to a caller-owned
frame object is recorded: a recorded mutation on any solver-feasible structural path is a failed obligation.  The same pipeline OBJECT is
then evaluated a second time on the same frames: it must return the same table (z3 decides cell equality for all values) and the
pipeline's printed form and SQL text must be unchanged.  Counterexamples are replayed with real pandas frames (values, dtypes, columns,
index compared before/after with DataFrame.equals + dtype + index checks)."""
import json
import traceback
import warnings

import z3

from vf import forksym
from vf.common import Report
from vf.sym import cell as C
from vf.sym import load, pdshim, progs, rel, runner, tv
from vf.sym.cell import Unmodelled

PROP = "C19"
INDEX = {0: [], 1: [7], 2: [5, 3], 3: [4, 4, 9]}


class H(forksym.Harness):
    def __init__(self, job):
        self.job = job
        self.ops = tv.build_ops(job["src"])
        self.txt0 = str(self.ops)
        self.unmodelled = {}

    def run(self, eng):
        j = self.job
        pdshim.PATH_KF.clear()
        pdshim.KF_ON.clear()
        pdshim.MUTATIONS.clear()
        tabs = {t: rel.sym_cells(t, cols, j["rows"][t]) for t, cols in j["schema"].items()}
        if j.get("backend") == "polars_eager":
            # the eager Polars adapter works on the caller's pl.DataFrame objects themselves (the lazy default starts with df.lazy())
            from vf.sym import plshim, plside

            model = plside.sym_polars_model(False)
            frames = {t: plshim.DataFrame({k: list(v) for k, v in cols.items()}, _n=j["rows"][t]) for t, cols in tabs.items()}
            for f in frames.values():
                f._index = []
        else:
            model = load.sym_pandas_model()
            frames = {t: rel.sym_frame(cols, j["rows"][t], index=INDEX[j["rows"][t]], owner=t) for t, cols in tabs.items()}
        before = {t: (list(f.columns), list(f._index), {c: list(v) for c, v in f._cols.items()}) for t, f in frames.items()}
        info = {"tabs": tabs}
        res = []
        for k in range(2):
            try:
                with warnings.catch_warnings():
                    warnings.simplefilter("ignore")
                    r = model.eval(self.ops, data_map=frames)
                cols = list(r.columns)
                res.append(rel.SideResult(cols, [[r._cols[c][i] for c in cols] for i in range(r._n)]))
            except Unmodelled as u:
                self.unmodelled[str(u)] = self.unmodelled.get(str(u), 0) + 1
                raise forksym.OutsideClaim("unmodelled: " + str(u))
            except Exception as e:
                res.append(rel.SideResult(exc=f"{type(e).__name__}: {str(e)[:200]}"))
        if pdshim.MUTATIONS:
            info["why"] = f"caller's frame mutated in place: {sorted(set(pdshim.MUTATIONS))}"
            return False, info
        for t, f in frames.items():
            cols, idx, cells = before[t]
            if list(f.columns) != cols or list(f._index) != idx or any(any(a is not b for a, b in zip(f._cols[c], cells[c])) for c in cols):
                info["why"] = f"caller's frame {t} differs after evaluation"
                return False, info
        a, b = res
        if (a.exc is None) != (b.exc is None):
            info["why"] = f"first evaluation: {a.describe()}; second evaluation: {b.describe()}"
            return False, info
        if str(self.ops) != self.txt0:
            info["why"] = "pipeline object changed by evaluation"
            return False, info
        if a.exc is not None:
            return True, info
        f, why = rel.tables_equiv(a, b, ordered=True)
        info["why"] = "second evaluation differs: " + why
        return f, info

    def concretize(self, model, info):
        return rel.concretize_tables(model, info["tabs"])


def real_check_polars(src, schema, tables):
    """real polars, eager adapter: the caller's pl.DataFrame objects unchanged (columns, values) and the second evaluation identical"""
    import polars as pl
    import data_algebra.polars_model

    ops = tv.build_ops(src)
    pframes = rel.real_frames(tables, schema)
    frames = {}
    for t, f in pframes.items():
        kinds = f.attrs.get("kinds", {})
        frames[t] = pl.DataFrame({c: pl.Series(c, [None if (v is None or v != v) else v for v in f[c].tolist()],
                                               dtype={"i": pl.Int64, "f": pl.Float64, "b": pl.Boolean, "s": pl.Utf8}.get(kinds.get(c, "f"), pl.Float64)) for c in f.columns})
    keep = {t: f.clone() for t, f in frames.items()}
    model = data_algebra.polars_model.PolarsModel(use_lazy_eval=False)
    outs = []
    for k in range(2):
        try:
            with warnings.catch_warnings():
                warnings.simplefilter("ignore")
                outs.append((ops.eval(frames, data_model=model), None))
        except Exception as e:
            outs.append((None, f"{type(e).__name__}: {str(e)[:150]}"))
    problems = []
    for t, f in frames.items():
        if list(f.columns) != list(keep[t].columns):
            problems.append(f"{t}: columns {list(keep[t].columns)} -> {list(f.columns)}")
        elif not f.equals(keep[t]):
            problems.append(f"{t}: values changed")
    (r1, e1), (r2, e2) = outs
    if (e1 is None) != (e2 is None):
        problems.append(f"first evaluation {'ok' if e1 is None else e1}, second {'ok' if e2 is None else e2}")
    return problems


def real_check(src, schema, tables, backend="pandas"):
    if backend == "polars_eager":
        return real_check_polars(src, schema, tables)
    """real pandas: inputs unchanged (values, dtypes, columns, index) and second evaluation identical"""
    import pandas as pd

    ops = tv.build_ops(src)
    frames = rel.real_frames(tables, schema)
    for t, f in frames.items():
        f.index = INDEX[f.shape[0]]
    keep = {t: f.copy(deep=True) for t, f in frames.items()}
    txt0 = str(ops)
    outs = []
    for k in range(2):
        try:
            with warnings.catch_warnings():
                warnings.simplefilter("ignore")
                outs.append((ops.eval(frames), None))
        except Exception as e:
            outs.append((None, f"{type(e).__name__}: {str(e)[:150]}"))
    problems = []
    for t, f in frames.items():
        k = keep[t]
        if list(f.columns) != list(k.columns):
            problems.append(f"{t}: columns {list(k.columns)} -> {list(f.columns)}")
        elif not f.equals(k) or list(f.dtypes) != list(k.dtypes) or list(f.index) != list(k.index):
            problems.append(f"{t}: values/dtypes/index changed")
    (r1, e1), (r2, e2) = outs
    if (e1 is None) != (e2 is None):
        problems.append(f"first evaluation {'ok' if e1 is None else e1}, second {'ok' if e2 is None else e2}")
    elif e1 is None and not (list(r1.columns) == list(r2.columns) and rel.concrete_tables_match(*rel._frame_to_rows(r1), *rel._frame_to_rows(r2), ordered=True)):
        problems.append("second evaluation returned a different table")
    if str(ops) != txt0:
        problems.append("pipeline text changed by evaluation")
    return problems


def _job(job):
    out = {"id": job["id"], "paths": 0, "discharged": 0, "cex": 0, "outside": 0, "unknown": 0, "errors": 0, "findings": [], "solver_s": 0.0, "branch_queries": 0,
           "truncated": False, "unmodelled": {}, "sql_repeat": None}
    try:
        h = H(job)
    except Exception:
        out["status"] = "not_a_program"
        return out
    # to_sql twice (SQLite + PostgreSQL): identical text, pipeline unchanged
    try:
        s1 = [tv.to_sql(h.ops, d) for d in ("sqlite", "postgresql")]
        s2 = [tv.to_sql(h.ops, d) for d in ("sqlite", "postgresql")]
        out["sql_repeat"] = (s1 == s2) and str(h.ops) == h.txt0
    except Exception:
        out["sql_repeat"] = None
    eng = forksym.Engine(query_timeout_ms=5000, max_paths=job.get("max_paths", 600), wall_budget_s=job.get("wall_s", 30), max_cex=1)
    res = eng.explore(h.run)
    st = eng.stats
    for k in ("paths", "discharged", "cex", "outside", "unknown", "errors", "branch_queries"):
        out[k] = getattr(st, k)
    out["solver_s"] = st.solver_s
    out["truncated"] = st.truncated
    out["unmodelled"] = h.unmodelled
    for r in res:
        if r.status == "cex":
            tables = h.concretize(r.model, r.info)
            try:
                problems = real_check(job["src"], job["schema"], tables, backend=job.get("backend", "pandas"))
            except Exception:
                problems = None
                out.setdefault("notes", []).append(traceback.format_exc()[-300:])
            out["findings"].append({"why": r.info.get("why"), "input": tables, "real_problems": problems})
        elif r.status == "error":
            out.setdefault("notes", []).append(r.why[-300:])
    return out


def build_jobs(tier, seed):
    ps = progs.enumerate_programs(1) + progs.enumerate_programs(2)
    for tr in progs.CURATED:
        src = progs.make(tr)
        ops = progs.try_build(src)
        if ops is not None:
            ps.append(("+".join(tr), src, progs.tables_of(ops)))
    if tier == "thorough":
        ps += progs.random_programs(seed, 300, 3, 4)
    jobs = []
    for label, src, tables in ps:
        schema = {t: progs.SCHEMA[t] for t in tables}
        vecs = [{t: 2 for t in tables}, {t: 0 for t in tables}]
        if len(tables) > 1:
            vecs.append({t: (0 if i == 0 else 1) for i, t in enumerate(tables)})
            vecs.append({t: (1 if i == 0 else 0) for i, t in enumerate(tables)})
        if tier == "thorough":
            vecs.append({t: (3 if i == 0 else 1) for i, t in enumerate(tables)})
        for rows in vecs:
            jobs.append({"id": f"{label}@{','.join(f'{t}={n}' for t, n in rows.items())}", "src": src, "schema": schema, "rows": rows,
                         "max_paths": 60 if tier == "quick" else 1500, "wall_s": 20 if tier == "quick" else 120})
    # the eager Polars adapter on the caller's own frames: single steps (and the curated programs in the thorough tier)
    for label, src, tables in ps:
        if "+" in label and tier == "quick":
            continue
        schema = {t: progs.SCHEMA[t] for t in tables}
        for rows in ([{t: 2 for t in tables}] if tier == "quick" else [{t: 2 for t in tables}, {t: 0 for t in tables}]):
            jobs.append({"id": f"polars-eager/{label}@{','.join(f'{t}={n}' for t, n in rows.items())}", "src": src, "schema": schema, "rows": rows, "backend": "polars_eager",
                         "max_paths": 60 if tier == "quick" else 600, "wall_s": 20 if tier == "quick" else 60})
    return jobs


def run(tier):
    import multiprocessing as mp

    rep = Report(PROP, "other")
    jobs = build_jobs(tier, rep.seed)
    with mp.get_context("fork").Pool(16, maxtasksperchild=300) as pool:
        results = pool.map(_job, jobs, chunksize=2)
    tot = {k: 0 for k in ("paths", "discharged", "cex", "outside", "unknown", "errors", "branch_queries")}
    solver_s = 0.0
    nprog = 0
    unm = {}
    sql_bad = []
    samples = []
    unconfirmed = 0
    byid = {j["id"]: j for j in jobs}
    for r in results:
        if r.get("status") == "not_a_program":
            continue
        nprog += 1
        for k in tot:
            tot[k] += r[k]
        solver_s += r["solver_s"]
        for k, v in r["unmodelled"].items():
            unm[k] = unm.get(k, 0) + v
        if r["sql_repeat"] is False:
            sql_bad.append(r["id"])
        for f in r["findings"]:
            if f["real_problems"]:
                rep.violation({"property": PROP, "job": byid[r["id"]], "input": f["input"], "why": f["why"], "real_problems": f["real_problems"]},
                              f"{r['id']}: {f['why']} / real engine: {f['real_problems']}")
            else:
                unconfirmed += 1
        for n in r.get("notes", []):
            rep.harness_error(f"{r['id']}: {n}")
        if len(samples) < 5 and r["paths"]:
            samples.append({"job": r["id"], "paths": r["paths"], "discharged": r["discharged"]})
    for jid in sql_bad[:10]:
        rep.violation({"property": PROP, "job": byid[jid], "kind": "to_sql_not_repeatable"}, f"{jid}: to_sql twice gives different text or changes the pipeline")
    rep.coverage = {
        "explanation": "Real Pandas executor over the pandas model on caller-owned frames with a non-default index; every solver-feasible structural path is "
                       "checked for in-place API calls on the caller's frame objects and the pipeline is evaluated twice on the same objects (results equal "
                       "for all cell values by z3, pipeline text unchanged); to_sql is generated twice per dialect and must be identical.",
        "functions_encoded": ["pandas_base._table_step / clean_copy and every _*_step (in-place writes on intermediate frames)", "sql_model.to_sql (idempotence; in-place term merging)"],
        "programs": nprog, "obligations": tot["paths"], "discharged": tot["discharged"], "counterexamples": tot["cex"],
        "counterexamples_not_reproduced_on_real_pandas": unconfirmed, "outside_claim_paths": tot["outside"], "unknown": tot["unknown"],
        "path_errors": tot["errors"], "branch_queries": tot["branch_queries"], "solver_s": round(solver_s, 2), "unmodelled": unm,
        "sql_idempotence_checked": nprog, "samples": samples, "evaluations": tot["paths"], "distinct_nontrivial": tot["paths"],
        "bounds": {"rows": "0 and 2 per table, mixed empty/non-empty inputs (3 in thorough)", "programs": "all 1- and 2-step sequences + curated triples (+ seeded random in thorough)",
                   "paths_per_program": "first 60 structural paths quick / 1500 thorough (mutation sites depend on shape, not on values)"},
        "rule": "one evaluation = one structural path of one program",
    }
    rep.assumptions = ["mutation tracking lives in the pandas model: an in-place pandas API not modelled there raises Unmodelled (counted) rather than passing silently",
                       "ex() and >> dispatch to the same executor entry (eval/transform); Polars frames are immutable-by-API and are covered by C03's agreement runs",
                       "dtype preservation of the caller's frames is checked on real-pandas replay only"]
    if unconfirmed:
        rep.coverage["note"] = "some solver counterexamples did not reproduce on real pandas (model divergence, counted, not reported)"
    return rep.finish()


def replay(path):
    d = json.load(open(path))
    job = d["job"]
    if d.get("kind") == "to_sql_not_repeatable":
        ops = tv.build_ops(job["src"])
        bad = any(tv.to_sql(ops, x) != tv.to_sql(ops, x) for x in ("sqlite", "postgresql"))
    else:
        bad = bool(real_check(job["src"], job["schema"], d["input"], backend=job.get("backend", "pandas")))
    print("replay", job["id"], "->", bad)
    if bad:
        print(f"VIOLATION property={PROP} replay={path}")
        return 1
    return 0
