"""C14 Generated SQL carries every literal and identifier verbatim.

L1 (CrossHair -> z3, symbolic execution of the REAL quoting functions): for every dialect model (SQLite, PostgreSQL, MySQL, BigQuery,
Spark) contracts in vf/ch/c14_quote.py state that the dialect's reference lexer reads quote_string(s) back as exactly one string token
with value s, quote_identifier(n) as exactly one identifier token n (names without the identifier quote), value lists as their values,
and cleaned annotations stay on one line -- for all strings up to the stated length over CrossHair's full character model, plus
structured long inputs (up to 12 quotes / 6 backslashes).  'Confirmed over all paths' discharges a contract; a counterexample is
re-evaluated concretely before it is reported; 'Not confirmed' is inconclusive.
L2/L3 (flow, concrete, real engines): adversarial strings (the solver's counterexample strings plus a fixed list: quotes, backslashes,
newlines with surrounding blanks, comment markers, percent signs, unicode) are pushed through whole pipelines at every site user text
reaches SQL (literals in extend / select_rows / mapv / is_in, column and table names, concat_rows labels, record-map keys, annotated
and un-annotated text) and executed on real SQLite; the value read back must equal the Pandas result."""
import json
import os
import re
import shutil
import tempfile
import warnings

from vf import chrun
from vf.common import Report, REPO

PROP = "C14"
HERE = os.path.dirname(os.path.abspath(__file__))
CH = os.path.join(os.path.dirname(HERE), "ch", "c14_quote.py")

ADVERSARIAL = ["'", "''", "'" * 9 + "x", "a'b", '"', 'say "hi"', "\\", "a\\", "\\'", "back\\slash\\n", "line1\nline2", "trail \nnext", "a\t\nb", "a\n\nb", "\r\n",
               "-- not a comment", "x' -- y", "/* c */", "100%", "%s %d", "semi;colon", "é中𝄞", " lead", "trail ", "", "NULL", "a' OR '1'='1", "');--", "{brace}", "`tick`"]
NAMES = ["plain", "with space", "semi;colon", "dash--dash", "quote'single", "per%cent", "back\\slash", "é中", "select", "null", "order", "1", "a.b", "new\nline", "x' AS y"]


def flow_checks(strings):
    """whole-pipeline flow on real pandas + real sqlite3; returns (n_checked, failures)"""
    import pandas as pd
    import data_algebra.SQLite
    from data_algebra import TableDescription
    from data_algebra.cdata import RecordMap, RecordSpecification
    from data_algebra.sql_format_options import SQLFormatOptions
    from vf.sym import rel

    fails, n = [], 0
    d = pd.DataFrame({"g": [1, 2], "s": ["k1", "k2"], "x": [1.0, 2.0]})
    base = TableDescription(table_name="d", column_names=["g", "s", "x"])

    def run(label, s, ops, frames, ordered=False):
        nonlocal n
        for annotate in (True, False):
            n += 1
            h = data_algebra.SQLite.example_handle()
            try:
                with warnings.catch_warnings():
                    warnings.simplefilter("ignore")
                    for k, v in frames.items():
                        h.insert_table(v, table_name=k, allow_overwrite=True)
                    sql = h.db_model.to_sql(ops, sql_format_options=SQLFormatOptions(annotate=annotate, warn_on_method_support=False, warn_on_novel_methods=False))
                    got = h.read_query(sql)
                    exp = ops.eval({k: v.copy() for k, v in frames.items()})
                a, b = rel._frame_to_rows(exp), rel._frame_to_rows(got)
                if not rel.concrete_tables_match(a[0], a[1], b[0], b[1]):
                    fails.append({"site": label, "string": s, "annotate": annotate, "pandas": a, "sqlite": b})
            except Exception as e:
                fails.append({"site": label, "string": s, "annotate": annotate, "error": f"{type(e).__name__}: {str(e)[:200]}"})
            finally:
                h.close()

    for s in strings:
        lit = repr(s)
        try:
            run("literal in extend", s, base.extend({"t": lit}), {"d": d})
            # a NEW column whose name is exactly the SQL text of the literal assigned to it (names are arbitrary text too)
            sqltext = data_algebra.SQLite.SQLiteModel().value_to_sql(s)
            if sqltext not in ("g", "s", "x") and '"' not in sqltext:
                run("column named like its literal's SQL text", s, base.extend({sqltext: lit}), {"d": d})
            run("literal in select_rows", s, base.extend({"t": lit}).select_rows(f"t == {lit}"), {"d": d})
            run("literal in mapv value", s, base.extend({"t": f"s.mapv({{'k1': {lit}}}, 'dflt')"}), {"d": d})
            dk = d.copy()
            dk["s"] = [s, "k2"]
            run("literal as mapv key / is_in member", s, base.extend({"t": f"s.mapv({{{lit}: 'hit'}}, 'miss')", "u": f"s.is_in([{lit}, 'zz'])"}), {"d": dk})
            run("concat_rows labels", s, base.concat_rows(b=TableDescription(table_name="e", column_names=["g", "s", "x"]), id_column="src", a_name=s, b_name="other"),
                {"d": d, "e": d})
        except Exception as e:  # the builder itself refusing a label/literal is a failure of the property too (well-formed text for every string)
            fails.append({"site": "builder", "string": s, "error": f"{type(e).__name__}: {str(e)[:200]}"})
        if s:
            try:
                ct = pd.DataFrame({"key": [s, s + "2"], "val": ["x", "y"]})
                rm = RecordMap(blocks_out=RecordSpecification(ct, record_keys=["g"], control_table_keys=["key"]))
                dd = pd.DataFrame({"g": [1, 2], "x": [1.0, 2.0], "y": [3.0, 4.0]})
                run("record-map key", s, TableDescription(table_name="r", column_names=["g", "x", "y"]).convert_records(rm), {"r": dd})
            except Exception as e:
                fails.append({"site": "record-map key", "string": s, "error": f"{type(e).__name__}: {str(e)[:200]}"})
    for nm in NAMES:
        if '"' in nm:
            continue
        try:
            dn = pd.DataFrame({nm: [1.0, 2.0], "g": [1, 1]})
            t = TableDescription(table_name="t " + nm, column_names=[nm, "g"])
            run("column/table name", nm, t.project({"m": f"g.max()"}, group_by=[nm]).order_rows([nm]), {"t " + nm: dn})
            run("column name pass-through subset", nm, t.select_columns([nm]), {"t " + nm: dn})
        except Exception as e:
            fails.append({"site": "column/table name", "string": nm, "error": f"{type(e).__name__}: {str(e)[:200]}"})
    return n, fails


def _module_for_tier(tier):
    """thorough tier: the same contracts with the length bounds raised by one (generated copy outside /verif)"""
    if tier == "quick":
        return CH, None
    tmp = tempfile.mkdtemp(prefix="c14ch_")
    src = open(CH).read()
    src = src.replace("len(s) <= 3", "len(s) <= 4").replace("len(n) <= 3", "len(n) <= 4").replace("len(a) <= 4", "len(a) <= 5")
    dst = os.path.join(tmp, "c14_quote_thorough.py")
    open(dst, "w").write(src)
    return dst, tmp


def run(tier):
    import importlib.util

    rep = Report(PROP, "other")
    path, tmp = _module_for_tier(tier)
    timeout = 30 if tier == "quick" else 240
    try:
        results = chrun.run_module(path, timeout, REPO)
        spec = importlib.util.spec_from_file_location("c14_contracts", path)
        mod = importlib.util.module_from_spec(spec)
        spec.loader.exec_module(mod)
        confirmed, incon, cex_strings = [], [], []
        twin_ok = False
        for r in results:
            if r["fn"].startswith("twin_"):
                twin_ok = twin_ok or r["status"] == "cex"
                continue
            if r["status"] == "confirmed":
                confirmed.append(r["fn"])
            elif r["status"] == "cex" and r.get("call"):
                ok, detail = chrun.replay_call(mod, r["call"])
                if ok:
                    rep.violation({"property": PROP, "kind": "contract", "contract": r["fn"], "call": r["call"], "detail": detail},
                                  f"{r['fn']}: {r['call']} -> {detail} (the dialect's lexer does not read the quoted text back verbatim)")
                    cex_strings += re.findall(r"""(?:'((?:[^'\\]|\\.)*)'|"((?:[^"\\]|\\.)*)")""", r["call"])
                else:
                    rep.harness_error(f"{r['fn']}: counterexample {r['call']} did not reproduce concretely ({detail})")
            else:
                incon.append({"contract": r["fn"], "why": (r.get("detail") or "")[:120]})
        if not twin_ok:
            rep.harness_error("vacuity: the deliberately false twin contract was not refuted by CrossHair")
    finally:
        if tmp:
            shutil.rmtree(tmp, ignore_errors=True)
    extra = []
    for a, b in cex_strings:
        try:
            extra.append(eval("'" + a + "'") if a else eval('"' + b + '"'))
        except Exception:
            pass
    strings = list(dict.fromkeys(ADVERSARIAL + extra))
    n_flow, fails = flow_checks(strings)
    seen = set()
    for f in fails:
        key = (f["site"], f["string"])
        if key in seen:
            continue
        seen.add(key)
        rep.violation({"property": PROP, "kind": "flow", **f}, f"flow: {f['site']} with {f['string']!r}: {json.dumps({k: v for k, v in f.items() if k not in ('site', 'string')}, default=str)[:300]}")
    n_contracts = len([r for r in results if not r["fn"].startswith("twin_")])
    rep.coverage = {
        "explanation": "L1: CrossHair (symbolic execution over z3) on contracts over the real quote_string / quote_identifier / value_to_sql / _clean_annotation of five dialect models "
                       "against reference lexers written from the dialects' documentation; L2/L3: adversarial strings (incl. the solver's counterexamples) pushed through whole "
                       "pipelines at every site user text reaches SQL and executed on real SQLite, compared with the Pandas result.",
        "functions_encoded": ["sql_model.SQLModel.quote_string / quote_identifier / value_to_sql / _clean_annotation", "MySQL.MySQLModel.quote_identifier", "BigQuery.BigQueryModel.quote_identifier"],
        "obligations": n_contracts + n_flow, "discharged": len(confirmed) + n_flow - len(seen), "contracts": n_contracts, "contracts_confirmed_over_all_paths": confirmed,
        "contracts_inconclusive": incon, "contract_counterexamples": len(rep.violations) - len(seen), "flow_executions_on_real_sqlite": n_flow, "flow_failures": len(seen),
        "bounds": {"string_length": "<= 3 (quick) / <= 4 (thorough) over CrossHair's character model; structured inputs up to 12 quotes and 6 backslashes",
                   "per_condition_timeout_s": timeout, "flow_strings": strings[:40]},
        "per_contract": [{k: r.get(k) for k in ("fn", "status", "wall_s", "call")} for r in results],
        "samples": [{"contract": c} for c in confirmed[:3]] + [{"flow_string": s} for s in strings[:3]],
        "evaluations": n_contracts + n_flow, "distinct_nontrivial": n_contracts + n_flow,
        "rule": "one evaluation = one CrossHair contract (all strings within its bound) or one whole-pipeline execution",
    }
    rep.assumptions = ["the lexers for MySQL (default sql_mode), BigQuery and Spark (escapedStringLiterals=false) are models written from documentation: no such engine is available; the SQLite lexer rules are validated by the flow executions on real sqlite3",
                       "CrossHair 'Not confirmed' (paths left when the time budget ended) is reported as inconclusive, never as success",
                       "the lark re-parse of concat_rows labels and whole to_sql are not symbolically executed (opaque / too string-heavy): covered by the concrete flow part only",
                       "names containing the dialect's identifier quote are excluded by the property (quote_identifier refuses them)"]
    return rep.finish()


def replay(path):
    import importlib.util

    d = json.load(open(path))
    if d.get("kind") == "contract":
        spec = importlib.util.spec_from_file_location("c14_contracts", CH)
        mod = importlib.util.module_from_spec(spec)
        spec.loader.exec_module(mod)
        ok, detail = chrun.replay_call(mod, d["call"])
        print("replay", d["call"], "->", detail)
        bad = ok
    else:
        n, fails = flow_checks([d["string"]])
        bad = any(f["site"] == d["site"] for f in fails)
        print("replay flow", d["site"], repr(d["string"]), "->", bad)
    if bad:
        print(f"VIOLATION property={PROP} replay={path}")
        return 1
    return 0
