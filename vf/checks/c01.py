"""C01 SQLite SQL computes the same table as the Pandas executor.

Per program (bounded grammar, vf.sym.progs) and row-count vector: the real PandasModelBase.eval (current source, over the pandas/numpy
model) and the SQL text emitted by the real SQLiteModel.to_sql (interpreted symbolically under SQLite semantics, with the repository's
own SQLite user functions) run on the same symbolic tables; z3 decides per structural path that the two results are the same table
(multiset of rows, positional after a final order_rows) for ALL cell values.  Counterexamples are replayed on real pandas + real
sqlite3 and reported only if both engines behave as the models predicted.
"""
import json

from vf.common import Report
from vf.sym import progs, runner, tv

PROP = "C01"

ASSUMPTIONS = [
    "pandas/numpy and SQLite are replaced by models (vf/sym/pdshim.py, vf/sym/sqlsym.py); witnesses of explored paths are replayed on real pandas and sqlite3 and must match the models' predictions",
    "values are mathematical integers / reals: int64 wrap-around, float rounding, inf, NaN-vs-null, -0.0, dates are outside the claim",
    "accepted differences (not compared): integer '/', '//', '%', sum/count over groups without non-null values, division by zero",
    "window orders must be total with non-null keys (paths with ties / null order keys are closed as outside the claim)",
    "transcendental functions are shared uninterpreted functions (argument plumbing and null handling are decided, numerical accuracy is not)",
    "group order of pandas groupby results is not modelled (results are compared as multisets unless the SQL ends in ORDER BY)",
]


def mkjob(label, src, tables, rows, kf_on, tier):
    return {"id": f"{label}@{','.join(f'{t}={n}' for t, n in rows.items())}", "schema": {t: progs.SCHEMA[t] for t in tables}, "rows": rows,
            "A": {"kind": "pandas", "src": src}, "B": {"kind": "sql", "src": src, "dialect": "sqlite"}, "ordered": "auto",
            "kf_on": sorted(kf_on), "validate": 1 if tier == "quick" else 2, "max_paths": 1500 if tier == "quick" else 6000,
            "wall_s": 40 if tier == "quick" else 180}


def programs(tier, seed):
    ps = progs.enumerate_programs(1) + progs.enumerate_programs(2)
    for tr in progs.CURATED:
        src = progs.make(tr)
        ops = progs.try_build(src)
        if ops is not None:
            ps.append(("+".join(tr), src, progs.tables_of(ops)))
    if tier == "thorough":
        ps += progs.random_programs(seed, 400, 3, 4)
    return ps


def build_jobs(tier, seed, kf_on):
    jobs = []
    for label, src, tables in programs(tier, seed):
        depth = label.count("+") + 1
        if tier == "quick":
            if depth == 1:
                vecs = progs.row_vectors(tables, 2, 2)
            else:
                # two rows in the first two inputs, one in any further input (3-input programs explode otherwise)
                vecs = [{t: (2 if i < 2 else 1) for i, t in enumerate(tables)}, {t: (0 if i == 0 else 1) for i, t in enumerate(tables)}]
        else:
            vecs = progs.row_vectors(tables, 3, 2) if depth <= 2 else [{t: 2 for t in tables}, {t: 1 for t in tables}]
            if depth <= 2 and len(tables) > 1:
                vecs.append({t: 3 for t in tables})
        for rows in vecs:
            jobs.append(mkjob(label, src, tables, rows, kf_on, tier))
    return jobs


def run(tier):
    rep = Report(PROP, "translation_validation")
    kf_on, entries = runner.kf_taints(PROP)
    jobs = build_jobs(tier, rep.seed, kf_on)
    results = runner.run_jobs(jobs)
    runner.fold(rep, PROP, jobs, results,
                "Real PandasModelBase.eval over the pandas/numpy model vs. the SQL text of the real SQLiteModel.to_sql interpreted over the same "
                "symbolic tables; per structural path z3 decides table equality for all cell values; counterexamples replayed on real pandas + sqlite3.",
                {"functions_encoded": ["pandas_base.PandasModelBase._*_step / act_on_expression (private copy of the current source over symnp)",
                                       "sql_model.SQLModel.to_sql and all *_to_near_sql (run concretely; emitted text interpreted)",
                                       "SQLite.SQLiteModel.natural_join_to_near_sql (right/full emulation), SQLite user functions is_bad/sign/abs/floor/ceil"],
                 "bounds": {"program_depth": "all 1- and 2-step sequences of %d step variants + curated triples%s" % (len(progs.STEPS), " + seeded random depth 3-4" if tier == "thorough" else ""),
                            "rows_per_table": "0..2 (quick) / 0..3 (thorough, 2-table programs 0..2 plus 3x3)", "tables": "<= 2 inputs (3 with join+concat)"},
                 "known_finding_taints": sorted(kf_on)})
    rep.assumptions = ASSUMPTIONS
    runner.replay_known(rep, PROP, entries)
    return rep.finish()


def replay(path):
    d = json.load(open(path))
    job = d["job"]
    w = {"A": job["A"], "B": job["B"], "schema": job["schema"], "input": d["input"], "ordered": False}
    still = runner.replay_witness(w)
    print("replay", job["id"], "input", d["input"], "-> engines disagree:", still)
    if still:
        print(f"VIOLATION property={PROP} replay={path}")
        return 1
    return 0
