"""C21 Solution helpers compute what their documentation promises.

Each helper runs concretely and returns a pipeline; the pipeline is executed symbolically (real Pandas executor over the pandas model;
SQLite SQL text interpreted) and compared by z3 with a reference written from the helper's docstring:
  rank_to_average            -> mean position of the row's tie group within its partition (order-free formula; ties are the point,
                                so the total-order requirement is switched off: the result must not depend on how ties are broken)
  last_observed_carried_forward -> each missing value replaced by the latest earlier non-missing value of its partition
                                (order total within partitions: premise)
  replicate_rows_query       -> each row emitted exactly `count` times numbered 0..count-1: the only relevant input is the count column
                                over the FINITE domain 1..max_count, which is enumerated completely on real pandas and real SQLite
                                (log / ceil / string keys make this helper unsuitable for the linear-arithmetic models)
  def_multi_column_map       -> every listed column mapped through the mapping table (record transform + join), decided on the models
                                where they cover the record transform, else on the real engines for enumerated mapping tables."""
import itertools
import json
import warnings

from vf.common import Report
from vf.sym import progs, runner, simple, tv

PROP = "C21"
T = "TableDescription(table_name='h', column_names=['g', 'o', 'v'])"
SCHEMA_RANK = {"h": [("g", "i", True), ("o", "f", False), ("v", "f", True)]}
SCHEMA_LOCF = {"h": [("g", "i", True), ("o", "f", False), ("v", "f", True)]}


def helper_src(kind, part):
    if kind == "rank":
        return f"data_algebra.solutions.rank_to_average({T}, order_by=['o'], partition_by={part!r}, rank_column_name='r')"
    if kind == "rank2":
        return f"data_algebra.solutions.rank_to_average({T}, order_by=['o', 'v'], partition_by={part!r}, rank_column_name='r')"
    if kind == "locf":
        return (f"data_algebra.solutions.last_observed_carried_forward({T}, order_by=['o'], partition_by={part!r}, value_column_name='v', selection_predicate='is_null()', "
                f"locf_to_use_column_name='locf_to_use', locf_non_null_rank_column_name='locf_non_null_rank', locf_tiebreaker_column_name='locf_tiebreaker')")
    raise ValueError(kind)


def build_jobs(tier, seed, kf_on):
    jobs = []
    ns = [1, 2, 3] if tier == "quick" else [1, 2, 3, 4]
    for part in ([], ["g"]):
        for n in ns:
            for bname, mk in (("pandas", lambda s: {"kind": "pandas", "src": s}), ("sqlite", lambda s: {"kind": "sql", "src": s, "dialect": "sqlite"})):
                src = helper_src("rank", part)
                ref = {"kind": "fn", "fn": "vf.sym.refsem:ref_rank_to_average", "args": ["h", ["o"], part, "r"], "label": "mean tie position"}
                jobs.append(simple.tv_job(f"rank_to_average part={part}:{bname}@{n}", SCHEMA_RANK, {"h": n}, mk(src), ref, kf_on, tier, allow_window_ties=True,
                                          max_paths=4000 if tier == "quick" else 40000, wall_s=120 if tier == "quick" else 900))
                if n <= 2 or tier != "quick":
                    src2 = helper_src("rank2", part)
                    ref2 = {"kind": "fn", "fn": "vf.sym.refsem:ref_rank_to_average", "args": ["h", ["o", "v"], part, "r"], "label": "mean tie position"}
                    jobs.append(simple.tv_job(f"rank_to_average(o,v) part={part}:{bname}@{n}", SCHEMA_RANK, {"h": n}, mk(src2), ref2, kf_on, tier, allow_window_ties=True,
                                              assume=[("nonnull", "h", ["v"])], max_paths=4000 if tier == "quick" else 40000, wall_s=120 if tier == "quick" else 900))
                srcl = helper_src("locf", part)
                refl = {"kind": "fn", "fn": "vf.sym.refsem:ref_locf", "args": ["h", ["o"], part, "v"], "label": "latest earlier non-missing value"}
                locf_assume = [("distinct", "h", part + ["o"])]
                if part and "locf_null_partition_key" in kf_on:
                    locf_assume.append(("nonnull", "h", part))  # recorded finding: rows whose partition key is missing are never filled (join on the key)
                jobs.append(simple.tv_job(f"locf part={part}:{bname}@{n}", SCHEMA_LOCF, {"h": n}, mk(srcl), refl, kf_on, tier, assume=locf_assume,
                                          max_paths=4000 if tier == "quick" else 40000, wall_s=120 if tier == "quick" else 900))
                # with TIED order keys "the last observed value" is not determined, but the helper still returns one row per input row
                jobs.append(simple.tv_job(f"locf row count with tied order keys part={part}:{bname}@{n}", SCHEMA_LOCF, {"h": n}, mk(srcl),
                                          {"kind": "fn", "fn": "vf.checks.c18:ref_limit_rows", "args": ["h", 10 ** 6], "label": "one row per input row"}, kf_on, tier,
                                          compare="rowcount", allow_window_ties=True, assume=[("nonnull", "h", part)] if part else [],
                                          max_paths=4000 if tier == "quick" else 40000, wall_s=120 if tier == "quick" else 900))
    return jobs


def replicate_exhaustive(max_counts):
    """finite domain: every count vector over 1..max_count for 1-2 rows (plus all single counts): real pandas + real SQLite"""
    import pandas as pd
    import data_algebra.solutions
    import data_algebra.SQLite
    from data_algebra import TableDescription

    fails, n = [], 0
    for mc in max_counts:
        td = TableDescription(table_name="rr", column_names=["id", "count"])
        with warnings.catch_warnings():
            warnings.simplefilter("ignore")
            ops, count_frame = data_algebra.solutions.replicate_rows_query(td, count_column_name="count", seq_column_name="seq", join_temp_name="jt", max_count=mc)
        vecs = [[c] for c in range(1, mc + 1)] + [list(p) for p in itertools.product(range(1, mc + 1), repeat=2) if mc <= 5]
        for counts in vecs:
            n += 1
            d = pd.DataFrame({"id": [f"r{i}" for i in range(len(counts))], "count": counts})
            expect = sorted((f"r{i}", c, s) for i, c in enumerate(counts) for s in range(c))
            for backend in ("pandas", "sqlite"):
                try:
                    with warnings.catch_warnings():
                        warnings.simplefilter("ignore")
                        if backend == "pandas":
                            res = ops.eval({"rr": d, "jt": count_frame})
                        else:
                            h = data_algebra.SQLite.example_handle()
                            h.insert_table(d, table_name="rr")
                            h.insert_table(count_frame, table_name="jt")
                            res = h.read_query(ops)
                            h.close()
                    got = sorted((str(a), int(b), int(c)) for a, b, c in zip(res["id"], res["count"], res["seq"]))
                    if got != expect or sorted(res.columns) != ["count", "id", "seq"]:
                        fails.append({"helper": "replicate_rows_query", "max_count": mc, "counts": counts, "backend": backend, "got": got[:12], "expected": expect[:12]})
                except Exception as e:
                    fails.append({"helper": "replicate_rows_query", "max_count": mc, "counts": counts, "backend": backend, "error": f"{type(e).__name__}: {str(e)[:200]}"})
    return n, fails


def multi_column_map_enumerated():
    """def_multi_column_map on real pandas + SQLite for enumerated mapping tables (mapped / unmapped / missing values)"""
    import pandas as pd
    import data_algebra.solutions
    import data_algebra.SQLite
    from data_algebra import TableDescription, descr

    fails, n = [], 0
    mappings = [
        {"a": {"x": 1.0, "y": 2.0}, "b": {"x": 10.0}},
        {"a": {"x": 1.0}, "b": {"q": 5.0, "x": 7.0}},
        {"a": {}, "b": {"x": 3.0}},
    ]
    datas = [
        {"id": [1, 2, 3], "a": ["x", "y", "z"], "b": ["x", "x", "q"]},
        {"id": [1, 2], "a": ["y", None], "b": ["zz", "x"]},
        {"id": [5], "a": ["x"], "b": ["x"]},
    ]
    for mp, dat, coalesce in itertools.product(mappings, datas, [None, -1.0]):
        rows = [(c, k, v) for c, kv in mp.items() for k, v in kv.items()]
        if not rows:
            continue
        n += 1
        mt = pd.DataFrame({"column_name": [r[0] for r in rows], "column_value": [r[1] for r in rows], "mapped_value": [r[2] for r in rows]})
        d = pd.DataFrame(dat)
        try:
            with warnings.catch_warnings():
                warnings.simplefilter("ignore")
                ops = data_algebra.solutions.def_multi_column_map(descr(d=d), mapping_table=descr(m=mt), row_keys=["id"], cols_to_map=["a", "b"], coalesce_value=coalesce)
                exp = {}
                for i, rid in enumerate(dat["id"]):
                    exp[rid] = tuple((mp[c].get(dat[c][i]) if dat[c][i] is not None else None) for c in ("a", "b"))
                    if coalesce is not None:
                        exp[rid] = tuple(coalesce if v is None else v for v in exp[rid])
                for backend in ("pandas", "sqlite"):
                    if backend == "pandas":
                        res = ops.eval({"d": d, "m": mt})
                    else:
                        h = data_algebra.SQLite.example_handle()
                        h.insert_table(d, table_name="d")
                        h.insert_table(mt, table_name="m")
                        res = h.read_query(ops)
                        h.close()
                    got = {int(r["id"]): tuple(None if (v is None or v != v) else float(v) for v in (r["a"], r["b"])) for _, r in res.iterrows()}
                    if got != exp:
                        fails.append({"helper": "def_multi_column_map", "mapping": mp, "data": dat, "coalesce": coalesce, "backend": backend, "got": str(got), "expected": str(exp)})
        except Exception as e:
            fails.append({"helper": "def_multi_column_map", "mapping": mp, "data": dat, "coalesce": coalesce, "error": f"{type(e).__name__}: {str(e)[:200]}"})
    return n, fails


def run(tier):
    rep = Report(PROP, "translation_validation")
    kf_on, entries = runner.kf_taints(PROP)
    jobs = build_jobs(tier, rep.seed, sorted(kf_on))
    results = runner.run_jobs(jobs)
    n_rep, f_rep = replicate_exhaustive([1, 2, 3, 4, 5] if tier == "quick" else [1, 2, 3, 4, 5, 6, 7, 8, 9, 16])
    n_map, f_map = multi_column_map_enumerated()
    runner.fold(rep, PROP, jobs, results,
                "rank_to_average and last_observed_carried_forward: the helper's pipeline executed symbolically on Pandas (model) and SQLite (text) against a reference "
                "from the docstring, z3 per-path equality; replicate_rows_query: complete enumeration of its finite input domain on the real engines; "
                "def_multi_column_map: enumerated mapping tables on the real engines.",
                {"functions_encoded": ["solutions.rank_to_average", "solutions.last_observed_carried_forward", "solutions.replicate_rows_query", "solutions.def_multi_column_map",
                                       "reference: vf.sym.refsem.ref_rank_to_average / ref_locf"],
                 "bounds": {"rows": "1..3 quick / 1..4 thorough (ties and missing values free)", "replicate_rows_query": "max_count 1..5 quick / up to 16 thorough, 1-2 rows, all count vectors",
                            "def_multi_column_map": "3 mapping tables x 3 data tables x coalesce on/off (concrete)"},
                 "replicate_rows_executions": n_rep, "multi_column_map_executions": n_map, "concrete_failures": len(f_rep) + len(f_map)})
    seen = set()
    for f in f_rep + f_map:
        key = (f["helper"], f.get("max_count"), str(f.get("counts")), f.get("backend"), str(f.get("mapping")))
        if key in seen:
            continue
        seen.add(key)
        if len(seen) > 12:
            break
        rep.violation({"property": PROP, "kind": "concrete", **f}, f"{f['helper']}: {json.dumps({k: v for k, v in f.items() if k != 'helper'}, default=str)[:400]}")
    rep.assumptions = ["models as in C01; LOCF: order total within partitions and order keys non-null (premise); rank_to_average: order keys non-null",
                       "replicate_rows_query and def_multi_column_map are decided by enumeration on the real engines (finite domain / record transforms outside the linear models): not a solver verdict",
                       "xicor and braid helpers are not named by the property"]
    runner.replay_known(rep, PROP, entries)
    for e in entries:
        if e.get("id") == "multi_map_single_column":  # recorded finding without a two-sided witness: replayed as the failing call itself
            try:
                import pandas as pd
                from data_algebra.data_ops import descr
                from data_algebra.solutions import def_multi_column_map

                d = pd.DataFrame({"id": [1, 2, 3], "va": ["a", "b", "c"]})
                m = pd.DataFrame({"column_name": ["va", "va"], "column_value": ["a", "b"], "mapped_value": [1.0, 2.0]})
                try:
                    def_multi_column_map(descr(d=d), mapping_table=descr(m=m), row_keys=["id"], cols_to_map=["va"], coalesce_value=0.0)
                except ValueError:
                    rep.known_finding(f"{e['id']}: {e['what_fails']}")
            except Exception as ex:
                rep.harness_error(f"known finding replay crashed: {ex!r}")
    return rep.finish()


def replay(path):
    d = json.load(open(path))
    if d.get("kind") == "concrete":
        if d["helper"] == "replicate_rows_query":
            n, fails = replicate_exhaustive([d["max_count"]])
        else:
            n, fails = multi_column_map_enumerated()
        bad = bool(fails)
        print("replay", d["helper"], "->", bad)
        if bad:
            print(f"VIOLATION property={PROP} replay={path}")
            return 1
        return 0
    return simple.replay_tv(PROP, path)
