"""C26 The builder rejects ill-formed steps when the pipeline is built.

(a) Solver-driven differential: for every prefix (including ones the builder simplifies away: order_rows without limit, select/drop
collapses, merged extends) and every step kind, the step's column arguments are SYMBOLIC names (z3 Strings).  Each symbolic name is
resolved by the solver against the vocabulary the builder can compare it with (the prefix's columns, the other table's columns, string
literals harvested from the builder's source, the other symbolic names) -- one path per feasible equality pattern, i.e. all strings up
to the builder's ability to distinguish them.  On each path the step is built on the PREFIX and on a fresh TableDescription with the
prefix's columns: both must accept or both reject (a simplified prefix must not lose a check), and on acceptance declare the same
columns.  Where the documented rule is a function of the names alone (two-assignment extend / project, pair-keyed join with the
common-key check requested) the acceptance is also decided against that rule (ORACLES) on every path.
(b) Rule table: on each prefix, steps that violate exactly one documented rule must be rejected at build time and their conforming
twins accepted (unknown column, changing a partition / ordering column, using a column the same extend produces, non-aggregating or
too-complex window / project expression, join keys missing / non-key common columns with the check requested, concat with different
columns)."""
import itertools
import json
import re
import warnings

import z3

from vf import forksym
from vf.common import Report
from vf.forksym import B
from vf.sym import load, progs, tv

PROP = "C26"
D, E, F = progs.D, progs.E, progs.F

PREFIXES = {
    "table": "",
    "order_nolimit": ".order_rows(['x'])",
    "order_limit": ".order_rows(['x'], limit=2)",
    "order_order": ".order_rows(['x']).order_rows(['y'], reverse=['y'])",
    "select": ".select_columns(['g', 'x'])",
    "drop": ".drop_columns(['y'])",
    "select_drop": ".select_columns(['g', 'x', 'y']).drop_columns(['y'])",
    "extend": ".extend({'w': 'x + 1'})",
    "extend_order": ".extend({'w': 'x + 1'}).order_rows(['w'])",
    "extend_extend": ".extend({'w': 'x + 1'}).extend({'v': 'y * 2'})",
    "window": ".extend({'t': 'x.sum()'}, partition_by=['g'])",
    "rename": ".rename_columns({'x2': 'x'})",
    "project": ".project({'s': 'x.sum()'}, group_by=['g'])",
    "filter": ".select_rows('x > 1')",
    "filter_order": ".select_rows('x > 1').order_rows(['y'])",
    "join": f".natural_join(b={E}, on=['g'], jointype='left')",
}

# step templates: {n} are symbolic names; expressions are concrete and refer to the prefix's first columns
def step_templates(cols):
    c0 = cols[0]
    c1 = cols[1] if len(cols) > 1 else cols[0]
    return {
        "extend_target": (1, lambda n: f".extend({{{n[0]!r}: '{c1} + 1'}})"),
        "extend_partition": (2, lambda n: f".extend({{{n[0]!r}: '{c1}.sum()'}}, partition_by=[{n[1]!r}])"),
        "extend_order": (3, lambda n: f".extend({{{n[0]!r}: '{c1}.cumsum()'}}, partition_by=[{n[1]!r}], order_by=[{n[2]!r}])"),
        "extend_order_rev": (2, lambda n: f".extend({{'zz_new': '_row_number()'}}, order_by=[{n[0]!r}], reverse=[{n[1]!r}])"),
        "project_group": (2, lambda n: f".project({{{n[0]!r}: '{c1}.max()'}}, group_by=[{n[1]!r}])"),
        "select": (2, lambda n: f".select_columns([{n[0]!r}, {n[1]!r}])"),
        "drop": (1, lambda n: f".drop_columns([{n[0]!r}])"),
        "rename": (2, lambda n: f".rename_columns({{{n[0]!r}: {n[1]!r}}})"),
        "map": (2, lambda n: f".map_columns({{{n[0]!r}: {n[1]!r}}})"),
        "order": (2, lambda n: f".order_rows([{n[0]!r}], reverse=[{n[1]!r}])"),
        "join_on": (1, lambda n: f".natural_join(b={F}, on=[{n[0]!r}], jointype='inner')"),
        "join_on_check": (1, lambda n: f".natural_join(b={F}, on=[{n[0]!r}], jointype='left', check_all_common_keys_in_equi_spec=True)"),
        "join_pair": (2, lambda n: f".natural_join(b={E}, on=[({n[0]!r}, {n[1]!r})], jointype='left', check_all_common_keys_in_equi_spec=True)"),
        "concat": (2, lambda n: f".concat_rows(b=TableDescription(table_name='q', column_names=[{n[0]!r}, {n[1]!r}]), id_column=None)"),
        "concat_id": (1, lambda n: f".concat_rows(b=TableDescription(table_name='q', column_names={cols!r}), id_column={n[0]!r})"),
        # two assignments with symbolic targets (n0, n1) AND symbolic columns read (n2, n3): decided against ORACLES below
        "extend2": (4, lambda n: f".extend({{{n[0]!r}: '{n[2]} + 1', {n[1]!r}: '{n[3]} * 2'}})"),
        "project2": (4, lambda n: f".project({{{n[0]!r}: '{n[2]}.max()', {n[1]!r}: '{n[3]}.min()'}}, group_by=[{c0!r}])"),
    }


def _oracle_two_assignments(names, cols, group=None):
    """C26 rules for a step {t0: f(u0), t1: f(u1)}: every column read is known; no assignment reads a column that ANOTHER assignment of
    the same step produces (a column may update itself); a project does not change its grouping column"""
    t0, t1, u0, u1 = names
    ok = u0 in cols and u1 in cols and u0 != t1 and u1 != t0
    if group is not None:
        ok = ok and t0 != group and t1 != group
    return ok


def _oracle_join_pair_checked(names, cols, right_cols):
    """C26 rule for natural_join(on=[(k_left, k_right)], check_all_common_keys_in_equi_spec=True): both keys exist on their side, and every
    column the two tables share is a key ON BOTH SIDES (under its own name); a shared column that is a key of one side only is not covered"""
    kl, kr = names
    if kl not in cols or kr not in right_cols:
        return False
    covered = {kl} & {kr}
    return not ((set(cols) & set(right_cols)) - covered)


ORACLES = {
    "extend2": lambda names, cols: _oracle_two_assignments(names, cols),
    "project2": lambda names, cols: _oracle_two_assignments(names, cols, group=cols[0]),
    "join_pair": lambda names, cols: _oracle_join_pair_checked(names, cols, ["g", "z"]),  # E's columns
}
SMALL_VOCAB = ("extend2", "project2")  # four symbolic names


def harvested_literals():
    """short identifier-like string constants in the builder source (names a user column could coincide with)"""
    import os

    src = open(os.path.join(load.repo_root(), "data_algebra", "view_representations.py")).read()
    lits = set(re.findall(r"""["']([a-z_][a-z_0-9]{1,24})["']""", src))
    keep = [l for l in sorted(lits) if l in ("expr", "table_name", "source_name", "a", "b", "left", "right")]
    return keep


class H(forksym.Harness):
    def __init__(self, pname, sname):
        self.pname, self.sname = pname, sname
        self.prefix_src = D + PREFIXES[pname]
        self.pre = tv.build_ops(self.prefix_src)
        self.cols = list(self.pre.column_names)
        self.arity, self.tpl = step_templates(self.cols)[sname]
        self.vocab = list(dict.fromkeys(self.cols + ["g", "x", "y", "z"] + harvested_literals()))
        if sname in SMALL_VOCAB:
            # four symbolic names: a small vocabulary keeps the equality patterns enumerable (two columns, one non-column, equal-to-earlier, fresh)
            self.vocab = list(dict.fromkeys(self.cols[:2] + ["zz_other"]))
        self.fresh_src = f"TableDescription(table_name='d', column_names={self.cols!r})"

    def resolve(self, terms):
        """solver-chosen equality pattern -> concrete names (one path per feasible pattern)"""
        out = []
        for i, t in enumerate(terms):
            chosen = None
            for v in self.vocab:
                if B(t == z3.StringVal(v)):
                    chosen = v
                    break
            if chosen is None:
                for j, prev in enumerate(out):
                    if B(t == terms[j]):
                        chosen = prev
                        break
            if chosen is None:
                chosen = f"fresh_name_{i}"
            out.append(chosen)
        return out

    def run(self, eng):
        terms = [z3.String(f"n{i}") for i in range(self.arity)]
        for t in terms:
            eng.assume(z3.Length(t) > 0)
        if self.sname in SMALL_VOCAB:
            eng.assume(terms[0] != terms[1])  # two different targets (a dict literal cannot hold the same key twice)
        names = self.resolve(terms)
        step = self.tpl(names)
        res = []
        for base in (self.prefix_src, self.fresh_src):
            try:
                with warnings.catch_warnings():
                    warnings.simplefilter("ignore")
                    o = tv.build_ops(base + step)
                res.append(("accepted", sorted(o.column_names)))
            except Exception as e:
                res.append(("rejected", type(e).__name__))
        info = {"names": names, "step": step, "on_prefix": res[0], "on_fresh_table": res[1]}
        if self.sname in ORACLES:
            want = ORACLES[self.sname](names, self.cols)
            info["expected_by_rules"] = "accepted" if want else "rejected"
            if (res[0][0] == "accepted") != want:
                return False, info
        if res[0][0] != res[1][0]:
            return False, info
        if res[0][0] == "accepted" and res[0][1] != res[1][1]:
            return False, info
        return True, info

    def concretize(self, model, info):
        return info


def make(pname, sname):
    return H(pname, sname)


def _job(args):
    pname, sname, maxp = args
    try:
        h = H(pname, sname)
    except Exception as e:
        return {"id": f"{pname}/{sname}", "status": "skip", "why": str(e)[:200]}
    eng = forksym.Engine(query_timeout_ms=5000, max_paths=maxp, max_cex=3)
    res = eng.explore(h.run)
    st = eng.stats
    return {"id": f"{pname}/{sname}", "status": "ok", "paths": st.paths, "discharged": st.discharged, "cex": st.cex, "truncated": st.truncated,
            "branch_queries": st.branch_queries, "solver_s": st.solver_s, "prefix": h.prefix_src,
            "findings": [r.info for r in res if r.status == "cex"], "errors": [r.why[-300:] for r in res if r.status == "error"]}


# ---------------------------------------------------------------------------------------------------- (b) documented rules
def rule_table(cols):
    c0, c1 = cols[0], (cols[1] if len(cols) > 1 else cols[0])
    other = [c for c in cols if c not in (c0, c1)]
    rows = [
        # (rule, step, must_accept)
        ("unknown column in expression", ".extend({'n1': 'nosuch + 1'})", False),
        ("known column in expression", f".extend({{'n1': '{c1} + 1'}})", True),
        ("unknown partition column", f".extend({{'n1': '{c1}.sum()'}}, partition_by=['nosuch'])", False),
        ("unknown order column", f".extend({{'n1': '{c1}.cumsum()'}}, order_by=['nosuch'])", False),
        ("changing a partition column", f".extend({{'{c0}': '{c1}.sum()'}}, partition_by=['{c0}'])", False),
        ("changing an ordering column", f".extend({{'{c1}': '{c1}.cumsum()'}}, partition_by=['{c0}'], order_by=['{c1}'])", False),
        ("windowed extend on other column ok", f".extend({{'n1': '{c1}.sum()'}}, partition_by=['{c0}'])", True),
        ("use of a column the same extend produces", f".extend({{'n1': '{c1} + 1', 'n2': 'n1 * 2'}})", False),
        ("use before produce in the same extend (either order)", f".extend({{'n2': 'n1 * 2', 'n1': '{c1} + 1'}})", False),
        ("independent assignments in one extend", f".extend({{'n1': '{c1} + 1', 'n2': '{c1} * 2'}})", True),
        ("non-aggregating window expression", f".extend({{'n1': '{c1} + 1'}}, partition_by=['{c0}'])", False),
        ("too-complex window expression", f".extend({{'n1': '{c1}.sum() + 1'}}, partition_by=['{c0}'])", False),
        ("too-complex window expression with partition_by=1", f".extend({{'n1': '{c1} + {c0}'}}, partition_by=1)", False),
        ("non-aggregating project expression", f".project({{'n1': '{c1} + 1'}}, group_by=['{c0}'])", False),
        ("too-complex project expression", f".project({{'n1': '{c1}.sum() + 1'}}, group_by=['{c0}'])", False),
        ("simple project", f".project({{'n1': '{c1}.sum()'}}, group_by=['{c0}'])", True),
        # "too complex" has two shapes: a calculation ON an aggregate (above) and an aggregate OF a calculation (below)
        ("project aggregate of a calculation", f".project({{'n1': '({c1} + {c1}).max()'}}, group_by=['{c0}'])", False),
        ("project aggregate of a method result", f".project({{'n1': '{c1}.abs().mean()'}}, group_by=['{c0}'])", False),
        ("project method of an aggregate", f".project({{'n1': '{c1}.max().abs()'}}, group_by=['{c0}'])", False),
        ("project aggregate of a constant", f".project({{'n1': '(1).sum()'}}, group_by=['{c0}'])", True),
        ("window aggregate of a calculation", f".extend({{'n1': '({c1} + {c1}).max()'}}, partition_by=['{c0}'])", False),
        ("window aggregate of a method result", f".extend({{'n1': '{c1}.abs().mean()'}}, partition_by=['{c0}'])", False),
        ("ordered window function of a calculation", f".extend({{'n1': '({c1} + 1).shift()'}}, partition_by=['{c0}'], order_by=['{c1}'])", False),
        ("window aggregate of a constant", f".extend({{'n1': '(1).sum()'}}, partition_by=['{c0}'])", True),
        # a whole-partition aggregate in an ORDERED window would be a running value in SQL and the group value in Pandas: rejected when built
        ("group sum in an ordered window", f".extend({{'n1': '{c1}.sum()'}}, partition_by=['{c0}'], order_by=['{c1}'])", False),
        ("group mean in an ordered window", f".extend({{'n1': '{c1}.mean()'}}, partition_by=['{c0}'], order_by=['{c1}'])", False),
        ("group size in an ordered window", f".extend({{'n1': '_size()'}}, partition_by=['{c0}'], order_by=['{c1}'])", False),
        ("group nunique in an ordered window", f".extend({{'n1': '{c1}.nunique()'}}, partition_by=['{c0}'], order_by=['{c1}'])", False),
        ("ordered function in an ordered window", f".extend({{'n1': '{c1}.cumsum()'}}, partition_by=['{c0}'], order_by=['{c1}'])", True),
        ("ordered window function in project", f".project({{'n1': '{c1}.cumsum()'}}, group_by=['{c0}'])", False),
        ("unknown group column", f".project({{'n1': '{c1}.sum()'}}, group_by=['nosuch'])", False),
        ("select unknown column", ".select_columns(['nosuch'])", False),
        ("drop unknown column", ".drop_columns(['nosuch'])", False),
        ("order by unknown column", ".order_rows(['nosuch'])", False),
        ("select_rows on unknown column", ".select_rows('nosuch > 1')", False),
        ("rename unknown column", ".rename_columns({'n1': 'nosuch'})", False),
        ("rename onto an existing column", f".rename_columns({{'{c0}': '{c1}'}})", False),
        ("join key missing on the left", f".natural_join(b=TableDescription(table_name='q', column_names=['kk', 'z9']), on=['kk'], jointype='inner')", False),
        ("join key missing on the right", f".natural_join(b=TableDescription(table_name='q', column_names=['kk', 'z9']), on=['{c0}'], jointype='inner')", False),
        ("join non-key common column with the check requested", f".natural_join(b=TableDescription(table_name='q', column_names=['{c0}', '{c1}']), on=['{c0}'], jointype='left', check_all_common_keys_in_equi_spec=True)", False),
        ("join non-key common column without the check", f".natural_join(b=TableDescription(table_name='q', column_names=['{c0}', '{c1}']), on=['{c0}'], jointype='left')", True),
        ("join all common columns are keys, check requested", f".natural_join(b=TableDescription(table_name='q', column_names=['{c0}', 'z9']), on=['{c0}'], jointype='left', check_all_common_keys_in_equi_spec=True)", True),
        ("concat with different columns", f".concat_rows(b=TableDescription(table_name='q', column_names=['{c0}', 'z9']), id_column=None)", False),
        ("concat with the same columns", f".concat_rows(b=TableDescription(table_name='q', column_names={cols!r}), id_column=None)", True),
    ]
    return rows


def rules_run():
    out = []
    n = 0
    for pname, suf in PREFIXES.items():
        psrc = D + suf
        pre = tv.build_ops(psrc)
        cols = list(pre.column_names)
        for rule, step, must in rule_table(cols):
            n += 1
            try:
                with warnings.catch_warnings():
                    warnings.simplefilter("ignore")
                    tv.build_ops(psrc + step)
                acc = True
            except Exception:
                acc = False
            if acc != must:
                out.append({"kind": "rule", "rule": rule, "prefix": pname, "src": psrc + step, "expected": "accepted" if must else "rejected at build time",
                            "got": "accepted" if acc else "rejected"})
    return out, n


def run(tier):
    import multiprocessing as mp

    rep = Report(PROP, "other")
    maxp = 1500 if tier == "quick" else 5000  # the largest template (three symbolic names) has ~1030 equality patterns: exhaustive in both tiers
    jobs = [(p, s, max(maxp, 2000) if s in ORACLES else maxp) for p in PREFIXES for s in step_templates(["g", "x"])]
    with mp.get_context("fork").Pool(16) as pool:
        results = pool.map(_job, jobs, chunksize=2)
    tot = {"paths": 0, "discharged": 0, "cex": 0, "branch_queries": 0}
    solver_s = 0.0
    trunc = 0
    samples = []
    for r in results:
        if r["status"] != "ok":
            continue
        for k in tot:
            tot[k] += r[k]
        solver_s += r["solver_s"]
        trunc += int(r["truncated"])
        for f in r["findings"][:3]:
            rep.violation({"property": PROP, "kind": "differential", "prefix": r["prefix"], **f},
                          f"{r['id']}: step {f['step']} is {f['on_prefix']} on the prefix, {f['on_fresh_table']} on a fresh table with the same columns"
                          + (f", the documented rules say {f['expected_by_rules']}" if f.get("expected_by_rules") else ""))
        for e in r["errors"][:1]:
            rep.harness_error(f"{r['id']}: {e}")
        if len(samples) < 6:
            samples.append({"job": r["id"], "paths": r["paths"], "discharged": r["discharged"]})
    rule_viol, n_rules = rules_run()
    for v in rule_viol:
        rep.violation({"property": PROP, **v}, f"rule '{v['rule']}' after prefix {v['prefix']}: expected {v['expected']}, builder {v['got']}: {v['src'][-160:]}")
    rep.coverage = {
        "explanation": "(a) for every prefix x step kind the step's column arguments are symbolic strings; the solver enumerates every feasible equality pattern against "
                       "the names the builder can compare them with; on each path the step is built on the real prefix and on a fresh description of the prefix's columns: "
                       "accept/reject and declared columns must agree. (b) documented-rule table: one violating and one conforming step per rule after every prefix.",
        "functions_encoded": ["view_representations builders + ExtendNode/ProjectNode/NaturalJoinNode/ConcatRowsNode/SelectColumnsNode/... __init__ validation",
                              "expr_parse.parse_assignments_in_context", "expr_rep fn_names_* classification / implies_windowed"],
        "obligations": tot["paths"] + n_rules, "discharged": tot["discharged"] + n_rules - len(rule_viol), "paths": tot["paths"], "counterexamples": tot["cex"],
        "rule_obligations": n_rules, "rule_violations": len(rule_viol), "branch_queries": tot["branch_queries"], "solver_s": round(solver_s, 2), "truncated_jobs": trunc,
        "bounds": {"prefixes": list(PREFIXES), "step_kinds": list(step_templates(["g", "x"])), "symbolic_names_per_step": "1..3",
                   "vocabulary": "prefix columns + g x y z + harvested builder literals + fresh names"},
        "samples": samples, "evaluations": tot["paths"] + n_rules, "distinct_nontrivial": tot["paths"] + n_rules,
        "rule": "one evaluation = one equality pattern of the symbolic names for one (prefix, step kind), or one rule-table row",
    }
    rep.assumptions = ["the builder distinguishes names only by equality with names it holds (columns, literals): one path per equality pattern covers all strings",
                       "expressions inside the steps are concrete text (the lark parser is opaque); the documented-rule table is finite",
                       "'not later at evaluation': accepted pipelines are executed in C01/C06/C07 (an evaluation-time schema error there is reported there)"]
    return rep.finish()


def replay(path):
    d = json.load(open(path))
    if d.get("kind") == "rule":
        try:
            tv.build_ops(d["src"])
            acc = "accepted"
        except Exception:
            acc = "rejected"
        bad = not d["expected"].startswith(acc)
    else:
        res = []
        pre = tv.build_ops(d["prefix"])
        fresh = f"TableDescription(table_name='d', column_names={list(pre.column_names)!r})"
        for base in (d["prefix"], fresh):
            try:
                o = tv.build_ops(base + d["step"])
                res.append(("accepted", sorted(o.column_names)))
            except Exception as e:
                res.append(("rejected", None))
        bad = res[0][0] != res[1][0] or (res[0][0] == "accepted" and res[0][1] != res[1][1])
        if d.get("expected_by_rules"):
            bad = bad or res[0][0] != d["expected_by_rules"]
    print("replay ->", bad)
    if bad:
        print(f"VIOLATION property={PROP} replay={path}")
        return 1
    return 0
