"""C24 OrderedSet is a set that remembers first insertion order.

The real OrderedSet class (and the collections.abc.MutableSet mixins it inherits) is executed on SymInt
elements.  A scenario = concrete operation sequence (enumerated) over *symbolic* element values; every
equality pattern of the elements is a path decided by z3.  The same scenario code is replayed with
plain ints for a counterexample.
Reference model: Python list without duplicates, written here from the property text.
"""
import itertools
import json
import z3

from vf import forksym
from vf.forksym import SymInt, Harness
from vf.common import Report

# ---------------------------------------------------------------- reference (list without duplicates)


def r_contains(lst, e):
    for x in lst:
        if x == e:
            return True
    return False


def r_dedup(seq):
    out = []
    for x in seq:
        if not r_contains(out, x):
            out.append(x)
    return out


def r_remove(lst, e):
    return [x for x in lst if not (x == e)]


def same_seq(real_iter, ref):
    real = list(real_iter)
    if len(real) != len(ref):
        return False
    for a, b in zip(real, ref):
        if not (a == b):
            return False
    return True


def same_set(real_iter, ref):
    real = list(real_iter)
    if len(real) != len(ref):
        return False
    # no duplicates in real, and same members
    for i, a in enumerate(real):
        for b in real[:i]:
            if a == b:
                return False
        if not r_contains(ref, a):
            return False
    return True


# ---------------------------------------------------------------- operations on (A, B) with a fresh element x
# each op: f(A, refA, B, refB, x) -> (ok: bool, newA, newRefA)   (B must stay unchanged)


def _expect_keyerror(fn):
    try:
        fn()
    except KeyError:
        return True
    return False


def op_add(A, ra, B, rb, x):
    A.add(x)
    return True, A, ra if r_contains(ra, x) else ra + [x]


def op_discard(A, ra, B, rb, x):
    A.discard(x)
    return True, A, r_remove(ra, x)


def op_remove(A, ra, B, rb, x):
    if r_contains(ra, x):
        A.remove(x)
        return True, A, r_remove(ra, x)
    return _expect_keyerror(lambda: A.remove(x)), A, ra


def op_contains(A, ra, B, rb, x):
    return (x in A) == r_contains(ra, x), A, ra


def op_len(A, ra, B, rb, x):
    return len(A) == len(ra), A, ra


def op_update(A, ra, B, rb, x):
    A.update(B, [x])
    return True, A, r_dedup(ra + rb + [x])


def op_union_method(A, ra, B, rb, x):
    C = A.union(B, [x])
    ok = same_seq(C, r_dedup(ra + rb + [x])) and same_seq(A, ra)
    return ok, C, r_dedup(ra + rb + [x])


def op_copy(A, ra, B, rb, x):
    C = A.copy()
    C.add(x)  # the copy must be independent
    ok = same_seq(A, ra)
    return ok, C, ra if r_contains(ra, x) else ra + [x]


def op_or(A, ra, B, rb, x):
    C = A | B
    exp = r_dedup(ra + rb)
    return same_set(C, exp) and same_seq(A, ra), C, list(C)


def op_and(A, ra, B, rb, x):
    C = A & B
    exp = [v for v in ra if r_contains(rb, v)]
    return same_set(C, exp) and same_seq(A, ra), C, list(C)


def op_sub(A, ra, B, rb, x):
    C = A - B
    exp = [v for v in ra if not r_contains(rb, v)]
    return same_set(C, exp) and same_seq(A, ra), C, list(C)


def op_xor(A, ra, B, rb, x):
    C = A ^ B
    exp = [v for v in ra if not r_contains(rb, v)] + [v for v in rb if not r_contains(ra, v)]
    return same_set(C, exp) and same_seq(A, ra), C, list(C)


def op_ior(A, ra, B, rb, x):
    A |= B
    return True, A, r_dedup(ra + rb)


def op_iand(A, ra, B, rb, x):
    A &= B
    return True, A, [v for v in ra if r_contains(rb, v)]


def op_isub(A, ra, B, rb, x):
    A -= B
    return True, A, [v for v in ra if not r_contains(rb, v)]


def op_ixor(A, ra, B, rb, x):
    A ^= B
    return True, A, [v for v in ra if not r_contains(rb, v)] + [v for v in rb if not r_contains(ra, v)]


def _subset(ra, rb):
    for v in ra:
        if not r_contains(rb, v):
            return False
    return True


def op_le(A, ra, B, rb, x):
    return (A <= B) == _subset(ra, rb) and (A >= B) == _subset(rb, ra), A, ra


def op_lt(A, ra, B, rb, x):
    sub, sup = _subset(ra, rb), _subset(rb, ra)
    return (A < B) == (sub and not sup) and (A > B) == (sup and not sub), A, ra


def op_eq(A, ra, B, rb, x):
    e = _subset(ra, rb) and _subset(rb, ra)
    return (A == B) == e and (A != B) == (not e), A, ra


def op_isdisjoint(A, ra, B, rb, x):
    d = True
    for v in ra:
        if r_contains(rb, v):
            d = False
    return A.isdisjoint(B) == d, A, ra


def op_pop(A, ra, B, rb, x):
    if not ra:
        return _expect_keyerror(lambda: A.pop()), A, ra
    v = A.pop()
    if not r_contains(ra, v):
        return False, A, ra
    return True, A, r_remove(ra, v)


def op_clear(A, ra, B, rb, x):
    A.clear()
    return True, A, []


def op_self_ior(A, ra, B, rb, x):
    A |= A
    return True, A, ra


def op_self_sub(A, ra, B, rb, x):
    C = A - A
    return len(C) == 0 and same_seq(A, ra), A, ra


def op_self_eq(A, ra, B, rb, x):
    return (A == A) and (A <= A) and not (A < A), A, ra


def op_ctor_roundtrip(A, ra, B, rb, x):
    from data_algebra.OrderedSet import OrderedSet

    C = OrderedSet(list(A) + [x] + list(A))
    return same_seq(C, ra if r_contains(ra, x) else ra + [x]), A, ra


OPS = {f.__name__[3:]: f for f in [
    op_add, op_discard, op_remove, op_contains, op_len, op_update, op_union_method, op_copy, op_or, op_and, op_sub, op_xor,
    op_ior, op_iand, op_isub, op_ixor, op_le, op_lt, op_eq, op_isdisjoint, op_pop, op_clear, op_self_ior, op_self_sub,
    op_self_eq, op_ctor_roundtrip]}


def scenario(a0, b0, xs, opnames, twin=False):
    """a0, b0: initial element lists; xs: one fresh element per op.  Returns True iff every observation matches."""
    from data_algebra.OrderedSet import OrderedSet

    A = OrderedSet(list(a0))
    B = OrderedSet(list(b0))
    ra, rb = r_dedup(a0), r_dedup(b0)
    if not same_seq(A, ra) or not same_seq(B, rb):
        return False
    for name, x in zip(opnames, xs):
        ok, A, ra = OPS[name](A, ra, B, rb, x)
        if not ok:
            return False
        if not same_seq(A, ra) or len(A) != len(ra):
            return False
        if not same_seq(B, rb):
            return False
    if twin:  # weakened oracle for the vacuity twin: claims A never has more than one element
        return len(ra) <= 1
    return True


def helpers_scenario(a, b, which):
    """which = '<helper>' or '<helper>/<argkinds>' with argkinds in {ll, os, so, oo} (l=list, o=OrderedSet, s=OrderedSet)"""
    from data_algebra.OrderedSet import OrderedSet, ordered_union, ordered_intersect, ordered_diff

    which, _, kinds = which.partition("/")
    kinds = kinds or "ll"
    da, db = r_dedup(a), r_dedup(b)
    arg_a = OrderedSet(list(a)) if kinds[0] == "o" else list(a)
    arg_b = OrderedSet(list(b)) if kinds[1] == "o" else list(b)
    ref_a = da if kinds[0] == "o" else list(a)
    ref_b = db if kinds[1] == "o" else list(b)
    if which == "union":
        res = ordered_union(arg_a, arg_b)
        ok = same_seq(res, r_dedup(list(a) + list(b)))
    elif which == "intersect":
        res = ordered_intersect(arg_a, arg_b)
        ok = same_seq(res, [v for v in da if r_contains(b, v)])
    elif which == "diff":
        res = ordered_diff(arg_a, arg_b)
        ok = same_seq(res, [v for v in da if not r_contains(b, v)])
    else:
        raise ValueError(which)
    if not ok:
        return False
    # the caller's collections are untouched, and the result is independent of them
    if not same_seq(arg_a, ref_a) or not same_seq(arg_b, ref_b):
        return False
    before = list(res)
    if isinstance(arg_a, OrderedSet) and len(before) > 0:
        arg_a.discard(before[0])
        if not same_seq(res, before):
            return False
    return isinstance(res, OrderedSet)


class H(Harness):
    def __init__(self, kind, na, nb, ops, twin=False):
        self.kind, self.na, self.nb, self.ops, self.twin = kind, na, nb, tuple(ops), twin

    def terms(self):
        return ([z3.Int(f"a{i}") for i in range(self.na)], [z3.Int(f"b{i}") for i in range(self.nb)],
                [z3.Int(f"x{i}") for i in range(len(self.ops))])

    def run(self, eng):
        a, b, x = self.terms()
        S = lambda l: [SymInt(e) for e in l]
        if self.kind == "seq":
            return bool(scenario(S(a), S(b), S(x), self.ops, self.twin))
        return bool(helpers_scenario(S(a), S(b), self.ops[0]))

    def concretize(self, model, info):
        a, b, x = self.terms()
        ev = lambda l: [model.eval(e, model_completion=True).as_long() for e in l]
        return {"kind": self.kind, "a": ev(a), "b": ev(b), "x": ev(x), "ops": list(self.ops)}


def make(kind, na, nb, ops, twin=False):
    return H(kind, na, nb, ops, twin)


def replay_input(inp):
    try:
        if inp["kind"] == "seq":
            return bool(scenario(inp["a"], inp["b"], inp["x"], inp["ops"]))
        return bool(helpers_scenario(inp["a"], inp["b"], inp["ops"][0]))
    except Exception as e:
        return False


def _job(j):
    """explore all equality patterns symbolically; additionally replay every discharged pattern on the REAL code with real ints chosen by the
    solver so that later-inserted elements are SMALLER than earlier ones: builtin set/dict iteration order of real ints (which the constant-hash
    proxies cannot show) then differs from insertion order, so an implementation that leaks hash order is caught by a witness"""
    kind, na, nb, ops, twin, maxp = j
    h = make(kind, na, nb, ops, twin)
    eng = forksym.Engine(max_paths=maxp, query_timeout_ms=10000)
    witnesses = []

    def on_result(r):
        if twin or r.status != "discharged" or len(witnesses) >= 40:
            return
        a, b, x = h.terms()
        ts = a + b + x
        if len(ts) < 2:
            return
        s = eng.solver
        for shape in ("descending", "ascending"):
            s.push()
            try:
                for i in range(len(ts)):
                    s.add(ts[i] >= 0, ts[i] <= 40)
                    for k in range(i + 1, len(ts)):
                        s.add(z3.Or(ts[i] == ts[k], ts[i] > ts[k]) if shape == "descending" else z3.Or(ts[i] == ts[k], ts[i] < ts[k]))
                if s.check() == z3.sat:
                    witnesses.append(h.concretize(s.model(), None))
            finally:
                s.pop()

    res = eng.explore(h.run, on_result=on_result)
    slim = forksym._slim(res, h)
    n_w = 0
    for w in witnesses:
        n_w += 1
        if not replay_input(w):
            slim.append({"status": "cex", "decisions": [], "why": "real-hash witness: the symbolic path is discharged but the real code fails on real ints", "input": w, "info": None})
    st = eng.stats
    st.witnesses = n_w
    return j, st, slim


def run(tier):
    rep = Report("C24", "other")
    names = list(OPS)
    jobs = []
    if tier == "quick":
        for o in names:
            jobs.append(("seq", 2, 2, (o,), False, 4000))
        for o1, o2 in itertools.product(names, names):
            jobs.append(("seq", 1, 1, (o1, o2), False, 4000))
        hb = 3
    else:
        for o in names:
            jobs.append(("seq", 3, 3, (o,), False, 20000))
        for o1, o2 in itertools.product(names, names):
            jobs.append(("seq", 2, 2, (o1, o2), False, 20000))
        mut = [n for n in names if n in ("add", "discard", "remove", "update", "pop", "ior", "iand", "isub", "ixor", "union_method", "copy", "clear")]
        for o1, o2, o3 in itertools.product(mut, mut, names):
            jobs.append(("seq", 1, 1, (o1, o2, o3), False, 20000))
        hb = 3
    for which in ("union", "intersect", "diff"):
        for kinds in ("ll", "oo", "ol", "lo"):
            for na in range(hb + 1):
                for nb in range(hb + 1):
                    if kinds != "ll" and (na > 2 or nb > 2) and tier == "quick":
                        continue
                    jobs.append(("helper", na, nb, (which + "/" + kinds,), False, 20000))
    twins = [("seq", 1, 1, ("add", "add"), True, 1000), ("seq", 2, 0, ("len",), True, 1000)]
    results = forksym.run_parallel(jobs + twins, _job, nproc=16, chunksize=4)
    total = forksym.Stats()
    programs = 0
    samples = []
    real_hash_witnesses = [0]
    for (j, st, res) in results:
        kind, na, nb, ops, twin, _ = j
        if twin:
            if not any(r["status"] == "cex" for r in res):
                rep.harness_error(f"vacuity: twin {ops} not refuted")
            continue
        programs += 1
        total.add(st)
        real_hash_witnesses[0] += getattr(st, "witnesses", 0)
        if len(samples) < 6 and st.paths > 3:
            samples.append({"scenario": {"kind": kind, "|A0|": na, "|B0|": nb, "ops": list(ops)}, "paths": st.paths, "discharged": st.discharged})
        for r in res:
            if r["status"] in ("cex", "error") and r["input"] and "a" in r["input"]:
                if not replay_input(r["input"]):
                    rep.violation({"property": "C24", "input": r["input"], "status": r["status"], "why": r["why"][-1500:]},
                                  f"OrderedSet scenario {r['input']}")
                else:
                    rep.harness_error(f"counterexample did not reproduce: {r['input']} ({r['status']}: {r['why'][-300:]})")
            elif r["status"] != "discharged":
                rep.harness_error(f"{ops}: {r['status']} {r['why'][-300:]}")
    rep.coverage = {
        "explanation": "Real OrderedSet (+ inherited MutableSet mixins) and ordered_union/intersect/diff executed on symbolic integer "
                       "elements; operation sequences are enumerated, every equality pattern among the elements is a z3-decided path; "
                       "after every operation the real iteration order / membership / length / comparison results are compared with a "
                       "list-without-duplicates reference. Order is asserted for the constructor, add/discard/update/in-place operators, "
                       "union() and the three helpers; for new sets built by | & - ^ only contents and duplicate-freedom are asserted.",
        "functions_encoded": ["data_algebra.OrderedSet.OrderedSet.*", "collections.abc.Set/MutableSet mixins", "ordered_union", "ordered_intersect", "ordered_diff"],
        "bounds": {"quick": "1 op on |A0|,|B0|<=2 ; all 2-op sequences on |A0|,|B0|<=1 ; helpers on lists <=3",
                   "thorough": "1 op on <=3 ; all 2-op on <=2 ; 3-op (two mutators then any) on <=1 ; helpers <=3"}[tier],
        "operations": names,
        "programs": programs,
        "obligations": total.paths,
        "discharged": total.discharged,
        "unknown": total.unknown,
        "truncated": total.truncated,
        "paths": total.paths,
        "branch_queries": total.branch_queries,
        "assert_queries": total.assert_queries,
        "solver_s": round(total.solver_s, 2),
        "real_hash_witnesses_replayed_on_real_code": real_hash_witnesses[0],
        "samples": samples,
        "evaluations": total.paths,
        "distinct_nontrivial": total.paths,
        "rule": "one evaluation = one feasible path (operation sequence x equality pattern of the symbolic elements)",
        "exhaustive": not total.truncated,
    }
    rep.assumptions = ["elements are mathematical integers behind constant-hash proxies (hash collisions always, so OrderedDict degrades to == chains)",
                       "operation sequences longer than the bound are outside the claim",
                       "__repr__/__str__ not covered"]
    return rep.finish()


def replay(path):
    d = json.load(open(path))
    ok = replay_input(d["input"])
    print("input", d["input"], "holds" if ok else "FAILS")
    if not ok:
        print(f"VIOLATION property=C24 replay={path}")
        return 1
    return 0
