"""C04 SQL formatting and optimization options never change query results.

For every program and dialect (SQLite; PostgreSQL, which enables CTE elimination) the real to_sql is run under all combinations of
use_with x use_cte_elim x annotate x initial_commas x sql_indent and with extend merging on/off.  Texts whose parse trees (comments and
layout removed) are identical to the baseline's are discharged syntactically; every remaining distinct tree is interpreted over the
same symbolic tables and z3 decides it returns the same table as the baseline tree for all cell values.  to_sql idempotence (same text
on a second call; the in-place term merging is the risk) is checked for every option set.  Programs emphasise what the options touch:
sub-pipelines used twice (CTE cache), extends that merge into their source, annotations containing comment markers / newlines."""
import itertools
import json
import warnings

from vf.common import Report
from vf.sym import progs, runner, simple, sqlsym, tv

PROP = "C04"
D, E, F = progs.D, progs.E, progs.F
D2 = "TableDescription(table_name='f', column_names=['g', 'x', 'y'])"


def option_sets(tier):
    out = []
    for use_with, cte, annotate, commas in itertools.product([True, False], repeat=4):
        for indent in ([" "] if tier == "quick" else [" ", "\t", "    "]):
            out.append({"use_with": use_with, "use_cte_elim": cte, "annotate": annotate, "initial_commas": commas, "sql_indent": indent})
    return out


def programs(tier, seed):
    out = dag_programs()
    singles = progs.enumerate_programs(1)
    pairs = progs.enumerate_programs(2)
    out += singles
    out += [p for p in pairs if progs.quick_keep(p[0], 6)] if tier == "quick" else pairs
    for tr in progs.CURATED:
        src = progs.make(tr)
        ops = progs.try_build(src)
        if ops is not None:
            out.append(("+".join(tr), src, progs.tables_of(ops)))
    return out


def dag_programs():
    """the programs that exercise what the options touch (CTE cache, extend merging, annotations); also used by C02"""
    sub = f"{D}.extend({{'w': 'x + 1'}})"
    flt = ".select_rows('x > 1')"
    ps = [
        ("shared_sub_twice", f"({sub}.project({{'s': 'w.sum()'}}, group_by=['g'])).natural_join(b=({sub}.project({{'m': 'w.max()'}}, group_by=['g'])), on=['g'], jointype='left')"),
        ("same_filter_two_tables_concat", f"({D}{flt}).concat_rows(b=({D2}{flt}), id_column=None)"),
        ("same_filter_two_tables_join", f"({D}{flt}.project({{'s': 'x.sum()'}}, group_by=['g'])).natural_join(b=({D2}{flt}.project({{'t': 'x.sum()'}}, group_by=['g'])), on=['g'], jointype='inner')"),
        ("same_extend_two_tables_concat", f"({D}.extend({{'w': 'x + y'}})).concat_rows(b=({D2}.extend({{'w': 'x + y'}})), id_column='src')"),
        ("same_project_two_tables", f"({D}.project({{'s': 'x.sum()'}}, group_by=['g'])).concat_rows(b=({D2}.project({{'s': 'x.sum()'}}, group_by=['g'])), id_column=None)"),
        # an extend that the SQL generator merges into the SELECT of the extend below it, while that inner extend is ALSO used a second time
        # (CTE elimination must not take the merged SELECT for the plain inner step)
        ("merged_window_over_shared_extend", f"(lambda a: a.extend({{'x': 'x.max()'}}, partition_by=['g']).natural_join(b=a.rename_columns({{'x2': 'x', 'y2': 'y', 'z2': 'z'}}), "
                                             f"on=['g'], jointype='left'))({D}.extend({{'z': 'y + 1'}}))"),
        ("merged_plain_over_shared_extend", f"(lambda a: a.extend({{'x': 'x * 2'}}).natural_join(b=a.rename_columns({{'x2': 'x', 'y2': 'y', 'z2': 'z'}}), on=['g'], jointype='left'))"
                                            f"({D}.extend({{'z': 'y + 1'}}))"),
        ("shared_extend_then_merged_on_the_right", f"(lambda a: a.rename_columns({{'x2': 'x', 'y2': 'y', 'z2': 'z'}}).natural_join(b=a.extend({{'x': 'x.max()'}}, partition_by=['g']), "
                                                   f"on=['g'], jointype='left'))({D}.extend({{'z': 'y + 1'}}))"),
        ("shared_extend_concat_merged", f"(lambda a: a.extend({{'x': 'x + 100'}}).concat_rows(b=a, id_column=None))({D}.extend({{'z': 'y + 1'}}))"),
        # one sub-pipeline used twice with the SAME column set asked for in two different ORDERS, the second use feeding a positional consumer (UNION ALL)
        ("shared_rename_two_column_orders", f"(lambda o: o.select_columns(['v', 'x', 'g']).concat_rows(b={D2}.rename_columns({{'v': 'y'}}).select_columns(['v', 'x', 'g']), id_column=None)"
                                            f".natural_join(b=o.concat_rows(b={D2}.rename_columns({{'v': 'y'}}), id_column=None).project({{'mx': 'x.max()', 'mv': 'v.max()'}}, group_by=['g']), "
                                            f"on=['g'], jointype='left'))({D}.rename_columns({{'v': 'y'}}))"),
        ("shared_rename_two_orders_plain_tables", "(lambda o: o.select_columns(['v', 'x', 'g']).concat_rows(b=TableDescription(table_name='t1', column_names=['v', 'x', 'g']), id_column=None)"
                                                  ".natural_join(b=o.concat_rows(b=TableDescription(table_name='t2', column_names=['g', 'x', 'v']), id_column=None)"
                                                  ".project({'mx': 'x.max()', 'mv': 'v.max()'}, group_by=['g']), on=['g'], jointype='left'))"
                                                  f"({D}.rename_columns({{'v': 'y'}}))"),
        ("shared_order_two_column_orders", f"(lambda o: o.select_columns(['y', 'x', 'g']).concat_rows(b={D2}.select_columns(['y', 'x', 'g']), id_column=None)"
                                           f".natural_join(b=o.concat_rows(b={D2}, id_column=None).project({{'mx': 'x.max()', 'my': 'y.max()'}}, group_by=['g']), on=['g'], jointype='left'))"
                                           f"({D}.order_rows(['x'], limit=1))"),
        ("merge_chain", f"{D}.extend({{'w': 'x + 1'}}).extend({{'v': 'y * 2'}}).extend({{'u': 'w + v'}})"),
        ("merge_overwrite", f"{D}.extend({{'x': 'x + 1'}}).extend({{'v': 'y * 2'}}).extend({{'y': 'x + v'}})"),
        ("merge_rekey_window", f"{D}.extend({{'y': '-y'}}).extend({{'c': 'x.cumsum()'}}, partition_by=['g'], order_by=['y'])"),
        ("merge_regroup_window", f"{D}.extend({{'g': 'g - g'}}).extend({{'t': 'x.sum()'}}, partition_by=['g'])"),
        ("merge_window_then_plain", f"{D}.extend({{'t': 'x.sum()'}}, partition_by=['g']).extend({{'r': 'x - t'}})"),
        ("merge_after_filter", f"{D}.select_rows('x > 0').extend({{'w': 'x + 1'}}).extend({{'v': 'w * 2'}})"),
        ("annot_comment_marker", f"{D}.extend({{'s': '\"-- not a comment\"', 'w': 'x - -1'}}).select_rows('w > 0')"),
        ("annot_newline", f"{D}.extend({{'s': {repr(repr('line1' + chr(10) + 'line2'))}}}).select_rows('x > 0')"),
        ("annot_percent_quote", f"{D}.extend({{'s': {repr(repr('100% ' + chr(39) + 'q' + chr(39)))}}}).project({{'n': '_size()'}}, group_by=['g'])"),
        ("join_of_join_shared", f"({D}.natural_join(b={E}, on=['g'], jointype='left')).natural_join(b=({D}.natural_join(b={E}, on=['g'], jointype='left')).project({{'mz': 'z.max()'}}, group_by=['g']), on=['g'], jointype='left')"),
    ]
    # the SAME step text applied to two DIFFERENT tables, each followed by a step that keeps it a separate sub-query, then stacked / joined:
    # a CTE cache keyed on the step's text alone would hand the first table's sub-query to the second branch
    same_steps = {
        "extend": ".extend({'w': 'x + 1'})", "window": ".extend({'t': 'x.sum()'}, partition_by=['g'])", "project": ".project({'x': 'x.sum()', 'y': 'y.max()'}, group_by=['g'])",
        "filter": ".select_rows('x > 0')", "order_limit": ".order_rows(['x'], limit=1)", "rename": ".rename_columns({'x2': 'x'})", "drop": ".drop_columns(['y'])",
        "map": ".map_columns({'x': 'y', 'y': 'x'})",
    }
    after = {"extend": ".select_rows('w > 0')", "window": ".select_rows('t > 0')", "project": ".select_rows('x > 0')", "filter": ".extend({'w': 'x + 1'})",
             "order_limit": ".extend({'w': 'x + 1'})", "rename": ".select_rows('x2 > 0')", "drop": ".select_rows('x > 0')", "map": ".select_rows('x > 0')"}
    for k, step in same_steps.items():
        ps.append((f"same_{k}_then_step_two_tables_concat", f"({D}{step}{after[k]}).concat_rows(b=({D2}{step}{after[k]}), id_column='src')"))
        ps.append((f"same_{k}_two_tables_concat_noid", f"({D}{step}).concat_rows(b=({D2}{step}), id_column=None)"))
    out = []
    for label, src in ps:
        ops = progs.try_build(src)
        if ops is not None:
            out.append((label, src, progs.tables_of(ops)))
    return out


def _norm_tree(sql, dialect):
    try:
        return repr(sqlsym.parse(sql, dialect))
    except Exception as e:
        return "unparsed:" + sql


def build(tier, seed, kf_on):
    """text generation for all option sets is the slow, embarrassingly parallel part: one program per task"""
    import multiprocessing as mp

    ps = programs(tier, seed)
    with mp.get_context("fork").Pool(16) as pool:
        parts = pool.map(_build_some, [(tier, seed, kf_on, [p]) for p in ps], chunksize=4)
    jobs, structural = [], []
    n_texts = n_syntactic = n_prog = 0
    for j, s, a, b, c in parts:
        jobs += j
        structural += s
        n_texts += a
        n_syntactic += b
        n_prog += c
    return jobs, structural, n_texts, n_syntactic, n_prog


def _build_some(args):
    tier, seed, kf_on, plist = args
    jobs, structural = [], []
    n_texts = n_syntactic = n_prog = 0
    osets = option_sets(tier)
    for label, src, tables in plist:
        ops = progs.try_build(src)
        if ops is None or not all(t in progs.SCHEMA for t in tables):
            continue
        n_prog += 1
        schema = {t: progs.SCHEMA[t] for t in tables}
        rows = {t: (2 if i < 2 else 1) for i, t in enumerate(tables)}
        for dialect in ("sqlite", "postgresql"):
            base = None
            seen = {}
            raised, n_ok = [], 0
            for aem in (True, False):
                for o in osets:
                    n_texts += 1
                    try:
                        s1 = tv.to_sql(ops, dialect, o, aem)
                        s2 = tv.to_sql(ops, dialect, o, aem)
                        n_ok += 1
                    except Exception as e:
                        # a pipeline the dialect cannot translate at all is not an options matter (C01/C16); raising under SOME option sets is
                        raised.append({"kind": "to_sql_raises_under_some_options", "src": src, "dialect": dialect, "options": o, "allow_extend_merges": aem,
                                       "error": f"{type(e).__name__}: {str(e)[:200]}"})
                        continue
                    if s1 != s2:
                        structural.append({"kind": "to_sql_not_idempotent", "src": src, "dialect": dialect, "options": o, "allow_extend_merges": aem})
                    tree = _norm_tree(s1, dialect)
                    if base is None:
                        base = (tree, {"kind": "sql", "src": src, "dialect": dialect, "options": o, "allow_extend_merges": aem})
                        seen[tree] = True
                        continue
                    if tree in seen:
                        n_syntactic += 1
                        continue
                    seen[tree] = True
                    side = {"kind": "sql", "src": src, "dialect": dialect, "options": o, "allow_extend_merges": aem}
                    jobs.append(simple.tv_job(f"{label}:{dialect} merges={aem} {json.dumps(o)}", schema, rows, base[1], side, kf_on, tier,
                                              max_paths=400 if tier == "quick" else 4000, wall_s=60, validate=(1 if dialect == "sqlite" else 0)))
            if raised and n_ok:
                structural.extend(raised[:2])
    return jobs, structural, n_texts, n_syntactic, n_prog


def run(tier):
    rep = Report(PROP, "translation_validation")
    kf_on, entries = runner.kf_taints(PROP)
    jobs, structural, n_texts, n_syntactic, n_prog = build(tier, rep.seed, sorted(kf_on))
    results = runner.run_jobs(jobs)
    runner.fold(rep, PROP, jobs, results,
                "SQL text of the real to_sql under every option combination (use_with, use_cte_elim, annotate, initial_commas, sql_indent) x extend merging on/off x "
                "dialect (SQLite, PostgreSQL): parse trees identical to the baseline are discharged syntactically; each distinct tree is interpreted over the same "
                "symbolic tables and compared with the baseline by z3; to_sql called twice must give identical text.",
                {"functions_encoded": ["sql_model.SQLModel.to_sql / extend_to_near_sql (allow_extend_merges branch, in-place subsql.terms mutation) / _clean_annotation / nearsql*_to_sql_str_list_",
                                       "near_sql.NearSQLContainer.to_with_form / to_with_form_stub (cte_cache keyed by ops_key + columns)", "sql_format_options.SQLFormatOptions"],
                 "bounds": {"programs": n_prog, "option_sets": len(option_sets(tier)), "rows": 2},
                 "sql_texts_generated": n_texts, "discharged_syntactically_same_parse_tree": n_syntactic, "distinct_trees_decided_by_solver": len(jobs),
                 "structural_obligations_failed": len(structural)})
    rep.coverage["programs"] = max(rep.coverage.get("programs", 0), n_prog)
    seen = set()
    for s in structural:
        key = (s["kind"], s["src"], s["dialect"])
        if key in seen:
            continue
        seen.add(key)
        rep.violation({"property": PROP, **s}, f"{s['kind']}: {json.dumps({k: v for k, v in s.items() if k != 'kind'})[:400]}")
    rep.assumptions = ["SQL semantics models as in C01/C02 (PostgreSQL model-only; its counterexamples are replayed on the SQLite stand-in)",
                       "comments are removed by the lexer exactly as the dialects do (-- to end of line); an annotation that breaks out of its comment shows up as a parse / result difference"]
    runner.replay_known(rep, PROP, entries)
    return rep.finish()


def replay(path):
    d = json.load(open(path))
    k = d.get("kind")
    if k:
        ops = tv.build_ops(d["src"])
        try:
            s1 = tv.to_sql(ops, d["dialect"], d["options"], d["allow_extend_merges"])
            s2 = tv.to_sql(ops, d["dialect"], d["options"], d["allow_extend_merges"])
            bad = s1 != s2
        except Exception as e:
            print("raises", e)
            bad = True
        print("replay", k, "->", bad)
        if bad:
            print(f"VIOLATION property={PROP} replay={path}")
            return 1
        return 0
    return simple.replay_tv(PROP, path)
