"""C13 expression text is parsed with Python's precedence and meaning.

For every text of a bounded Python-like grammar:  the real parser (parse_by_lark; lark itself is opaque C/Python
table code and runs concretely) yields a Term tree; the tree is turned into a z3 term by walking it with the
repository's own ExpressionWalker protocol (Term.act_on); CPython's ast for the same text is turned into a z3 term
with the *same operator table*.  z3 decides equality for all operand values.
Operator table ("float-faithful"): +, *, /, //, %, ** and method calls are uninterpreted binary functions over Real
(so any re-association or argument swap is visible -- float + and * are not associative), binary/unary minus,
comparisons and boolean connectives are interpreted.  Booleans used as numbers are 0/1 on both sides.
Also: parse(print(parse(t))) is_equal parse(t) and is z3-equal.
A solver counterexample is only reported after real evaluation (Pandas extend on a witness frame vs Python eval)
disagrees on some concrete operand assignment.
"""
import ast
import itertools
import json
import math
import time

import z3

from vf.common import Report
from vf import forksym

R = z3.RealSort()
_UF = {}


def uf(name, n):
    k = (name, n)
    if k not in _UF:
        _UF[k] = z3.Function("f_" + name, *([R] * n + [R]))
    return _UF[k]


def tonum(v):
    return z3.If(v, z3.RealVal(1), z3.RealVal(0)) if z3.is_bool(v) else v


def tobool(v):
    return v if z3.is_bool(v) else v != 0


VARS = {n: z3.Real(n) for n in "xyz"}
BIN_UF = {"+": "add", "*": "mul", "/": "truediv", "//": "floordiv", "%": "mod", "**": "pow"}
_ISNAN = z3.Function("is_nan", R, z3.BoolSort())


def _ok(*xs):
    """no operand is NaN: Python's comparisons are all False on a NaN operand (!= is True), so 'not (a < b)' is NOT 'a >= b'.  NaN-ness is an
    uninterpreted predicate of the operand term (numerals are never NaN): it only separates trees that treat unordered operands differently."""
    def never_nan(x):  # numerals, and truth values turned into 0/1
        s = z3.simplify(x)
        return z3.is_rational_value(s) or z3.is_int_value(s) or (z3.is_app_of(x, z3.Z3_OP_ITE) and z3.is_bool(x.arg(0)))

    return z3.And([z3.Not(_ISNAN(x)) for x in xs if not never_nan(x)] or [z3.BoolVal(True)])


CMP = {"==": lambda a, b: z3.And(_ok(a, b), a == b), "!=": lambda a, b: z3.Or(z3.Not(_ok(a, b)), a != b),
       "<": lambda a, b: z3.And(_ok(a, b), a < b), "<=": lambda a, b: z3.And(_ok(a, b), a <= b),
       ">": lambda a, b: z3.And(_ok(a, b), a > b), ">=": lambda a, b: z3.And(_ok(a, b), a >= b)}


def lit(value):
    if isinstance(value, bool):
        return z3.BoolVal(value)
    if isinstance(value, (int, float)):
        return z3.RealVal(repr(value)) if isinstance(value, float) else z3.RealVal(value)
    raise NotImplementedError(repr(value))


def sem_bin(o, a, b):
    if o in BIN_UF:
        return uf(BIN_UF[o], 2)(tonum(a), tonum(b))
    if o == "-":
        return tonum(a) - tonum(b)
    if o in CMP:
        return CMP[o](tonum(a), tonum(b))
    raise NotImplementedError(o)


def make_walker():
    from data_algebra.expression_walker import ExpressionWalker

    class W(ExpressionWalker):
        def act_on_literal(self, *, value):
            return lit(value)

        def act_on_column_name(self, *, arg, value):
            return VARS[value]

        def act_on_expression(self, *, arg, values, op):
            o = op.op
            if o in ("and", "or"):
                vs = [tobool(v) for v in values]
                return z3.And(vs) if o == "and" else z3.Or(vs)
            if o == "-" and len(values) == 1:
                return -tonum(values[0])
            if o == "+" and len(values) == 1:
                return tonum(values[0])
            if (o in BIN_UF or o == "-" or o in CMP) and len(values) >= 2 and op.inline:
                r = values[0]  # k-ary inline operators are evaluated left to right by every backend
                for v in values[1:]:
                    r = sem_bin(o, r, v)
                return r
            # method / function call: uninterpreted in the order (receiver, args...)
            return uf("m_" + o, len(values))(*[tonum(v) for v in values])

    return W()


def py_sem(node):
    if isinstance(node, ast.Expression):
        return py_sem(node.body)
    if isinstance(node, ast.Constant):
        return lit(node.value)
    if isinstance(node, ast.Name):
        return VARS[node.id]
    if isinstance(node, ast.UnaryOp):
        v = py_sem(node.operand)
        if isinstance(node.op, ast.USub):
            return -tonum(v)
        if isinstance(node.op, ast.UAdd):
            return tonum(v)
        if isinstance(node.op, ast.Not):
            return z3.Not(tobool(v))
    if isinstance(node, ast.BinOp):
        op = {ast.Add: "+", ast.Sub: "-", ast.Mult: "*", ast.Div: "/", ast.FloorDiv: "//", ast.Mod: "%", ast.Pow: "**"}[type(node.op)]
        return sem_bin(op, py_sem(node.left), py_sem(node.right))
    if isinstance(node, ast.Compare):
        vals = [py_sem(node.left)] + [py_sem(c) for c in node.comparators]
        ops = [{ast.Eq: "==", ast.NotEq: "!=", ast.Lt: "<", ast.LtE: "<=", ast.Gt: ">", ast.GtE: ">="}[type(o)] for o in node.ops]
        cs = [sem_bin(o, a, b) for o, a, b in zip(ops, vals, vals[1:])]
        return cs[0] if len(cs) == 1 else z3.And(cs)
    if isinstance(node, ast.BoolOp):
        vs = [tobool(py_sem(v)) for v in node.values]  # generated only on boolean-valued operands
        return z3.And(vs) if isinstance(node.op, ast.And) else z3.Or(vs)
    if isinstance(node, ast.Call) and isinstance(node.func, ast.Attribute):
        recv = py_sem(node.func.value)
        args = [py_sem(a) for a in node.args]
        return uf("m_" + node.func.attr, 1 + len(args))(*[tonum(v) for v in [recv] + args])
    raise NotImplementedError(ast.dump(node))


# ------------------------------------------------------------------------------------------------ text grammar
ARITH_OPS = ["+", "-", "*", "/", "//", "%", "**"]
CMP_OPS = ["<", "<=", "==", "!=", ">", ">="]


def gen_arith(depth, atoms, ops):
    if depth == 0:
        yield from atoms
        return
    subs = list(gen_arith(depth - 1, atoms, ops))
    yield from subs
    for a in subs:
        yield "-" + a
        yield "(" + a + ")"
        yield "(-" + a + ")"
    base = list(gen_arith(0, atoms, ops))
    for a in subs:
        for b in base:
            for o in ops:
                yield f"{a} {o} {b}"
                yield f"{b} {o} {a}"
                yield f"{b} {o} ({a})"
                yield f"({a}) {o} {b}"


def texts(tier, seed):
    atoms = ["x", "y", "2", "3"] if tier == "quick" else ["x", "y", "z", "2", "3", "2.5", "-1"]
    out = set()
    ar1 = sorted(set(gen_arith(1, atoms, ARITH_OPS)))
    ar2 = sorted(set(gen_arith(2, atoms[:3] if tier == "quick" else atoms[:4], ARITH_OPS)))
    out.update(ar1)
    out.update(ar2)
    small = [t for t in ar1 if len(t) <= 7][:60]
    # comparisons, chains, boolean connectives over comparisons, not
    cmps = []
    for a, b in itertools.product(small[:14], repeat=2):
        for o in CMP_OPS[: (3 if tier == "quick" else 6)]:
            cmps.append(f"{a} {o} {b}")
    out.update(cmps)
    for a, b, c in itertools.product(["x", "y", "2", "x + 1"], repeat=3):
        for o1, o2 in itertools.product(["<", "<=", "==", ">"], repeat=2):
            out.add(f"{a} {o1} {b} {o2} {c}")
    cs = ["x < y", "x == 2", "y >= 3", "(x < y)", "x + 1 > y * 2"]
    for a, b in itertools.product(cs, repeat=2):
        out.add(f"{a} and {b}")
        out.add(f"{a} or {b}")
        out.add(f"not {a} and {b}")
        out.add(f"not ({a} or {b})")
        out.add(f"({a}) or ({b})")
        for c in cs[:3]:
            out.add(f"{a} or {b} and {c}")
            out.add(f"{a} and {b} or {c}")
            out.add(f"({a} or {b}) and {c}")
            out.add(f"not {a} or {b} and not {c}")
    # method calls
    for a in small[:25]:
        out.add(f"({a}).abs()")
        out.add(f"({a}).maximum(y)")
        out.add(f"x.maximum({a})")
        out.add(f"-x.abs()")
        out.add(f"x.abs() ** 2")
        out.add(f"({a}).maximum(y).minimum(3)")
        out.add(f"x.maximum(y) - ({a})")
    # literal receivers (negative, float, zero) of methods with zero, one and two arguments; not applied directly to a comparison
    for lit_ in ["-2.5", "2.5", "-2", "0", "1.0", "-0.5"]:
        for m in ["abs()", "round()", "maximum(x)", "minimum(y)", "where(x, y)"]:
            out.add(f"({lit_}).{m}")
        out.add(f"x + ({lit_}).abs()")
        out.add(f"-({lit_}).maximum(x)")
    for o in CMP_OPS:
        out.add(f"not x {o} y")
        out.add(f"not (x {o} y)")
        out.add(f"not x + 1 {o} y * 2")
        out.add(f"not (x {o} y {o} 2)")
    # right-associativity and unary/power interplay
    # negative literals of every numeric kind as operands of every operator, both positions (a negative constant is not atomic when printed)
    for lit_ in ["(-2)", "(-2.5)", "(-0.5)", "-2.5", "-3"]:
        for o in ARITH_OPS:
            for v in ["x", "y", "2", "x + 1"]:
                out.add(f"{lit_} {o} {v}")
                out.add(f"{v} {o} {lit_}")
                out.add(f"y * {lit_} {o} {v}")
                out.add(f"{v} {o} {lit_} + x")
    for a, b, c in itertools.product(["x", "y", "2", "-x", "(-2)"], repeat=3):
        out.add(f"{a} ** {b} ** {c}")
        out.add(f"({a} ** {b}) ** {c}")
        out.add(f"{a} - {b} - {c}")
        out.add(f"{a} - ({b} - {c})")
        out.add(f"{a} / {b} / {c}")
        out.add(f"{a} + ({b} + {c})")
        out.add(f"{a} * ({b} * {c})")
        out.add(f"({a} + {b}) + ({c} + {a})")
        out.add(f"{a} - {b} + {c}")
        out.add(f"{a} + {b} * {c}")
        out.add(f"{a} * {b} + {c}")
        out.add(f"{a} % {b} * {c}")
        out.add(f"{a} // {b} / {c}")
    if tier == "thorough":
        import random

        rnd = random.Random(seed)
        pool = sorted(out)
        for _ in range(40000):
            a, b = rnd.choice(pool), rnd.choice(pool)
            if len(a) + len(b) > 40 or any(k in a + b for k in ("and", "or", "not", "<", ">", "=")):
                continue
            o = rnd.choice(ARITH_OPS)
            out.add(rnd.choice([f"{a} {o} {b}", f"({a}) {o} {b}", f"{a} {o} ({b})", f"-({a}) {o} {b}"]))
    return sorted(out)


# ------------------------------------------------------------------------------------------------ real-engine replay
POOL = [1e16, -1e16, 1.0, 0.1, 0.2, 0.3, 3.0, -2.0, 2.0, 7.0, 0.5, -0.75]


def _pyeval_rows(text, rows):
    code = compile(text.replace(".abs()", ".__abs__()"), "<expr>", "eval")
    out = []

    class F(float):
        def maximum(self, o):
            return F(max(self, o))

        def minimum(self, o):
            return F(min(self, o))

    for r in rows:
        try:
            v = eval(code, {"__builtins__": {}}, {k: F(v) for k, v in r.items()})
        except Exception:
            v = None
        out.append(v)
    return out


def real_disagreement(text, extra_rows=()):
    """evaluate text with the real DSL on Pandas over a witness frame and with Python itself; return a witness row or None"""
    import pandas as pd
    from data_algebra import TableDescription

    if ".maximum" in text or ".minimum" in text or ".abs" in text:
        pass
    rows = [dict(zip("xyz", vals)) for vals in itertools.product(POOL, repeat=3)]
    rows = list(extra_rows) + rows
    d = pd.DataFrame(rows)
    try:
        res = TableDescription(table_name="d", column_names=["x", "y", "z"]).extend({"r": text}).transform(d)
    except Exception as e:
        return {"dsl_raised": repr(e)[:200]}
    py = _pyeval_rows(text, rows)
    for i, (pv, dv) in enumerate(zip(py, list(res["r"]))):
        if pv is None:
            continue
        try:
            pvf, dvf = float(pv), float(dv)
        except Exception:
            continue
        if math.isnan(pvf) or math.isnan(dvf) or math.isinf(pvf) or math.isinf(dvf):
            continue
        if isinstance(pv, complex):
            continue
        if pvf != dvf:
            return {"row": rows[i], "python": pvf, "dsl_pandas": dvf}
    return None


def _model_row(m):
    def val(v):
        r = m.eval(v, model_completion=True)
        try:
            return float(r.as_fraction())
        except Exception:
            return 1.0

    def isnan(v):
        try:
            return z3.is_true(m.eval(_ISNAN(v), model_completion=True))
        except Exception:
            return False

    return {n: (float("nan") if isnan(v) else val(v)) for n, v in VARS.items()}


def check_text(t, cols, W, solver):
    """returns (status, detail)  status in ok / rejected / cex / unknown"""
    from data_algebra.parse_by_lark import parse_by_lark

    try:
        tree = parse_by_lark(t, data_def=cols)
    except Exception:
        return "rejected", None
    try:
        p = py_sem(ast.parse(t, mode="eval"))
    except Exception:
        return "rejected", None
    try:
        d = tree.act_on(None, expr_walker=W)
    except NotImplementedError:
        return "rejected", None
    out = []
    pairs = [("meaning", d, p)]
    # print -> parse round trip
    printed = str(tree.to_python())
    try:
        tree2 = parse_by_lark(printed, data_def=cols)
        d2 = tree2.act_on(None, expr_walker=W)
        if not tree.is_equal(tree2):
            out.append(("roundtrip_tree", printed, None))
        pairs.append(("roundtrip_meaning", d2, d))
    except Exception as e:
        out.append(("roundtrip_parse_error", printed + " :: " + repr(e)[:100], None))
    unknown = False
    for kind, a, b in pairs:
        q = (a != b) if z3.is_bool(a) == z3.is_bool(b) else (tonum(a) != tonum(b))
        if z3.is_false(z3.simplify(q)):
            continue
        solver.push()
        solver.add(q)
        r = solver.check()
        if r == z3.sat:
            out.append((kind, printed, _model_row(solver.model())))
        elif r == z3.unknown:
            unknown = True
        solver.pop()
    if out:
        return "cex", out
    return ("unknown" if unknown else "ok"), None


def _job(chunk):
    import data_algebra.expr_rep as er

    cols = {n: er.ColumnReference(n) for n in "xyz"}
    W = make_walker()
    s = z3.Solver()
    s.set("timeout", 5000)
    res = {"ok": 0, "rejected": 0, "unknown": 0, "cex": [], "queries": 0}
    t0 = time.time()
    for t in chunk:
        st, det = check_text(t, cols, W, s)
        if st == "cex":
            res["cex"].append((t, det))
        else:
            res[st] += 1
    res["wall"] = time.time() - t0
    return res


def run(tier):
    rep = Report("C13", "translation_validation")
    T = texts(tier, rep.seed)
    n = 64
    chunks = [T[i::n] for i in range(n)]
    results = forksym.run_parallel(chunks, _job, nproc=16)
    ok = sum(r["ok"] for r in results)
    rejected = sum(r["rejected"] for r in results)
    unknown = sum(r["unknown"] for r in results)
    cex = [c for r in results for c in r["cex"]]
    solver_s = sum(r["wall"] for r in results)
    confirmed = 0
    unconfirmed = []
    for t, det in cex[:200]:
        kinds = [k for k, _, _ in det]
        extra = [m for _, _, m in det if m]
        w = None
        if any(k in ("meaning",) for k in kinds):
            w = real_disagreement(t, extra)
        if w is None and any(k.startswith("roundtrip") for k in kinds):
            # the round trip itself is the observable: printed text re-parses to a different tree
            printed = [p for k, p, _ in det if k.startswith("roundtrip")][0]
            w = {"printed": printed, "note": "parse(print(parse(t))) differs from parse(t)"}
            if "roundtrip_meaning" in kinds and "roundtrip_tree" not in kinds:
                w2 = real_disagreement(printed, extra)
                w = w if w2 is None else {"printed": printed, "witness": w2}
        if w is not None:
            confirmed += 1
            if confirmed <= 40:
                rep.violation({"property": "C13", "text": t, "solver": [(k, p, m) for k, p, m in det], "witness": w},
                              f"text {t!r}: {kinds} witness {w}")
        else:
            unconfirmed.append(t)
    rep_unconfirmed = len(unconfirmed)
    if unconfirmed and confirmed == 0:
        rep.harness_error(f"{len(unconfirmed)} solver counterexamples did not reproduce on real evaluation, e.g. {unconfirmed[:3]}")
    # vacuity canary: a deliberately wrong 'Python' reading (left-assoc power) must be refuted by the solver
    x, y, z = VARS["x"], VARS["y"], VARS["z"]
    s = z3.Solver()
    s.add(sem_bin("**", sem_bin("**", x, y), z) != sem_bin("**", x, sem_bin("**", y, z)))
    if s.check() != z3.sat:
        rep.harness_error("vacuity: canary (left- vs right-assoc power) not distinguishable")
    rep.coverage = {
        "programs": len(T) - rejected,
        "disagreements_checked": len(cex),
        "texts_generated": len(T), "rejected_by_dsl_or_python": rejected, "equivalent": ok, "unknown": unknown,
        "solver_counterexamples": len(cex), "confirmed_on_real_evaluation": confirmed, "not_reproduced_on_witness_pool": rep_unconfirmed,
        "functions_encoded": ["parse_by_lark._walk_lark_tree (via the Term it returns)", "Term.act_on / Expression.act_on", "Expression.to_python / Value.to_python", "kop_expr"],
        "bounds": {"grammar": "nested arithmetic depth<=2 over x,y,(z),literals; comparisons and chains; and/or/not over comparisons; method calls; ** and unary-minus interplay",
                   "operands": "all real values (z3 Real); + * / // % ** and methods uninterpreted (non-associative), - and comparisons interpreted"},
        "solver_s": round(solver_s, 2),
        "samples": [{"text": t, "verdict": "equivalent"} for t in T[:: max(1, len(T) // 8)][:8]],
        "evaluations": len(T), "distinct_nontrivial": len(T) - rejected,
        "rule": "one program = one distinct expression text accepted by both the DSL parser and Python",
    }
    rep.assumptions = ["lark's LALR tables run concretely; only the tree they yield is encoded",
                       "and/or/not compared on boolean-valued operands only (Python returns operands, the DSL truth values)",
                       "float rounding is represented by making + * / // % ** uninterpreted (any regrouping is then visible); numerical accuracy itself is not checked",
                       "string literals, lists, dicts and %op% extensions are not in this grammar (see C12/C14)"]
    return rep.finish()


def replay(path):
    d = json.load(open(path))
    t = d["text"]
    w = real_disagreement(t)
    print(t, "->", w, "| recorded:", d.get("witness"))
    import data_algebra.expr_rep as er
    cols = {n: er.ColumnReference(n) for n in "xyz"}
    st, det = check_text(t, cols, make_walker(), z3.Solver())
    print("solver:", st, det)
    if st == "cex":
        print(f"VIOLATION property=C13 replay={path}")
        return 1
    return 0
