"""C10 Columns not reported as used never influence a pipeline's result.

For every program: U = ops.columns_used() (real code).  (1) Perturbation: the backend evaluates P on symbolic tables T and on T' whose
cells are SHARED on reported columns and INDEPENDENT fresh symbols on unreported ones; z3 decides the two results are equal for all
values.  (2) Narrowing: P rebuilt with every TableDescription narrowed to its reported columns must build and give the same result on T
restricted to those columns.  Backends: Pandas executor over the pandas model and the SQLite SQL text (SQL pruning uses the same
per-node logic)."""
import re

from vf.sym import progs, simple

PROP = "C10"

EXTRA = [
    ("shared_dag", None),  # filled in programs(): a sub-pipeline feeding two branches
]

TD_RE = re.compile(r"TableDescription\(table_name='(\w+)', column_names=\[([^\]]*)\]\)")


def narrowed_src(src, used):
    def rep(m):
        t = m.group(1)
        cols = [c.strip().strip("'") for c in m.group(2).split(",") if c.strip()]
        keep = [c for c in cols if c in used.get(t, set())]
        if not keep:
            keep = cols[:1]
        return f"TableDescription(table_name='{t}', column_names={keep!r})"

    return TD_RE.sub(rep, src)


def programs(tier, seed):
    ps = progs.enumerate_programs(1) + progs.enumerate_programs(2)
    D, E = progs.D, progs.E
    base = f"{D}.extend({{'z': 'x + 1'}})"
    dag = (f"({base}.select_columns(['g', 'z'])).natural_join(b=({base}.project({{'y_max': 'y.max()'}}, group_by=['g'])), on=['g'], jointype='left')")
    dag2 = (f"({D}.select_rows('x > 0').select_columns(['g'])).natural_join(b=({D}.select_rows('x > 0').project({{'m': 'y.max()'}}, group_by=['g'])), on=['g'], jointype='inner')")
    dk = f"{D}.natural_join(b={progs.K}, on=[('g', 'k')], jointype='left').select_columns(['x', 'z'])"
    dk2 = f"{D}.natural_join(b={progs.K}, on=[('g', 'k')], jointype='inner').project({{'n': '_size()'}})"
    # the same node OBJECT feeding two branches (a textual copy would be a different object): built through a lambda
    shared1 = (f"(lambda base: base.select_columns(['g', 'z']).natural_join(b=base.project({{'y_max': 'y.max()'}}, group_by=['g']), on=['g'], jointype='left'))"
               f"({D}.extend({{'z': 'x + 1'}}))")
    shared2 = (f"(lambda base: base.project({{'s': 'x.sum()'}}, group_by=['g']).natural_join(b=base.project({{'m': 'y.max()'}}, group_by=['g']), on=['g'], jointype='inner'))"
               f"({D}.select_rows('x > 0'))")
    shared3 = (f"(lambda base: base.select_columns(['g', 'x']).concat_rows(b=base.select_columns(['g', 'y']).rename_columns({{'x': 'y'}}), id_column=None))"
               f"({D}.extend({{'w': 'x + y'}}))")
    shared4 = (f"(lambda base: base.drop_columns(['y']).natural_join(b=base.order_rows(['y'], limit=1).select_columns(['g', 'y']), on=['g'], jointype='left'))({D})")
    # one shared interior node visited twice, the second visit asking for a strict SUPERSET of the first (and the mirror image; and three visits)
    shared5 = (f"(lambda base: base.select_columns(['g', 'z']).natural_join(b=base.select_columns(['g', 'z', 'y']), on=['g'], jointype='left'))"
               f"({D}.extend({{'z': 'x + 1'}}))")
    shared6 = (f"(lambda base: base.select_columns(['g', 'z', 'y']).natural_join(b=base.select_columns(['g', 'z']), on=['g'], jointype='left'))"
               f"({D}.extend({{'z': 'x + 1'}}))")
    shared7 = (f"(lambda base: base.select_columns(['g']).natural_join(b=base.select_columns(['g', 'w']).natural_join(b=base.select_columns(['g', 'w', 'y']), on=['g'], jointype='inner'), "
               f"on=['g'], jointype='left'))({D}.extend({{'w': 'x * 2'}}))")
    for label, src in (("shared_obj_superset_second", shared5), ("shared_obj_superset_first", shared6), ("shared_obj_three_visits", shared7),
                       ("shared_obj_select_vs_project", shared1), ("shared_obj_two_projects", shared2), ("shared_obj_concat", shared3), ("shared_obj_limit", shared4),
                       ("shared_dag", dag), ("shared_dag_filter", dag2), ("diffkey_then_select", dk), ("diffkey_then_count", dk2),
                       ("window_then_select", f"{D}.extend({{'r': '_row_number()'}}, partition_by=['g'], order_by=['y']).select_columns(['x', 'r'])"),
                       ("order_limit_then_select", f"{D}.order_rows(['y'], limit=1).select_columns(['x'])"),
                       ("filter_then_select", f"{D}.select_rows('y > 0').select_columns(['x'])"),
                       ("concat_id_then_project", f"{D}.concat_rows(b={progs.F}, id_column='src').project({{'n': '_size()'}}, group_by=['src'])")):
        ops = progs.try_build(src)
        if ops is not None:
            ps.append((label, src, progs.tables_of(ops)))
    # systematic shared-node family: one interior node, two visits asking for every pair of column subsets (disjoint, nested either way, overlapping)
    subsets = [["g"], ["g", "x"], ["g", "y"], ["g", "z"], ["g", "x", "y"], ["g", "x", "z"], ["g", "y", "z"], ["g", "x", "y", "z"]]
    for i, sa in enumerate(subsets):
        for j, sb in enumerate(subsets):
            src = (f"(lambda base: base.select_columns({sa!r}).natural_join(b=base.select_columns({sb!r}), on=['g'], jointype='left'))"
                   f"({D}.extend({{'z': 'x + 1'}}))")
            ops = progs.try_build(src)
            if ops is not None:
                ps.append((f"shared_pair_{i}_{j}", src, progs.tables_of(ops)))
    for tr in progs.CURATED:
        src = progs.make(tr)
        ops = progs.try_build(src)
        if ops is not None:
            ps.append(("+".join(tr), src, progs.tables_of(ops)))
    if tier == "thorough":
        ps += progs.random_programs(seed, 300, 3, 4)
    return ps


def build_jobs(tier, seed, kf_on):
    jobs = []
    n = 2 if tier == "quick" else 3
    for label, src, tables in programs(tier, seed):
        ops = progs.try_build(src)
        used = {t: set(cs) for t, cs in ops.columns_used().items()}
        schema = {t: progs.SCHEMA[t] for t in tables}
        rows = {t: (n if i < 2 else 1) for i, t in enumerate(tables)}
        unrep = {t: [c for c, _, _ in progs.SCHEMA[t] if c not in used.get(t, set())] for t in tables}
        if any(unrep.values()):
            schema2 = dict(schema)
            rows2 = dict(rows)
            ima, imb = {}, {}
            for t in tables:
                if unrep[t]:
                    alt = t + "~alt"
                    schema2[alt] = [c for c in progs.SCHEMA[t] if c[0] in unrep[t]]
                    rows2[alt] = rows[t]
                    ima[alt] = {"drop": True}
                    imb[alt] = {"drop": True}
                    imb[t] = {"take_from": (alt, unrep[t])}
            for bname, mk in (("pandas", lambda s, im: {"kind": "pandas", "src": s, "inmap": im}), ("sqlite", lambda s, im: {"kind": "sql", "src": s, "dialect": "sqlite", "inmap": im})):
                jobs.append(simple.tv_job(f"perturb/{label}:{bname}", schema2, rows2, mk(src, ima), mk(src, imb), kf_on, tier,
                                          max_paths=1000 if tier == "quick" else 6000, wall_s=40 if tier == "quick" else 200))
        nsrc = narrowed_src(src, used)
        if nsrc != src:
            keep = {t: {"keep": [c for c, _, _ in progs.SCHEMA[t] if c in used.get(t, set())] or [progs.SCHEMA[t][0][0]]} for t in tables}
            for bname, mk in (("pandas", lambda s, im: {"kind": "pandas", "src": s, "inmap": im}), ("sqlite", lambda s, im: {"kind": "sql", "src": s, "dialect": "sqlite", "inmap": im})):
                jobs.append(simple.tv_job(f"narrow/{label}:{bname}", schema, rows, mk(src, None), mk(nsrc, keep), kf_on, tier, narrowed=True,
                                          max_paths=600 if tier == "quick" else 4000, wall_s=30 if tier == "quick" else 150))
    return jobs


def post(rep, jobs, results):
    # A pipeline whose TEXT mentions an unreported column (drop_columns(['y']), an extend whose output is never used ...) cannot be
    # re-built on narrowed descriptions; the property speaks about narrowing the table descriptions, not about re-typing such steps,
    # so these are counted as "narrowing not expressible", not as violations (the perturbation clause still covers them).
    byid = {j["id"]: j for j in jobs}
    n = sum(1 for r in results if r["status"] == "not_a_program" and byid[r["id"]].get("narrowed"))
    rep.coverage["narrowing_not_expressible_for_pipeline_text"] = n
    rep.coverage["narrowed_pipelines_compared"] = sum(1 for r in results if r["status"] == "ok" and byid[r["id"]].get("narrowed"))


def run(tier):
    return simple.run_tv_check(
        PROP, tier, build_jobs,
        "Perturbation: same backend on tables that share the cells of reported columns and have independent symbolic cells elsewhere; narrowing: pipeline "
        "rebuilt on table descriptions narrowed to columns_used(); z3 decides result equality per structural path (Pandas executor over the model; SQLite text).",
        {"functions_encoded": ["view_representations.ViewRepresentation.columns_used / columns_used_implementation_ / every columns_used_from_sources",
                               "pandas_base executor; sql_model subusing pruning (same per-node logic)"],
         "bounds": {"programs": "all 1- and 2-step sequences, shared-sub-pipeline DAGs, differently named join keys, curated triples", "rows": "2 per table quick / 3 thorough"}},
        ["models as in C01", "columns_used() itself runs concretely (it is a function of the pipeline only); the solver quantifies over the values of the unreported columns"],
        post=post)


def replay(path):
    import json

    d = json.load(open(path))
    if d.get("kind") == "narrowed_does_not_build":
        from vf.sym import tv

        try:
            tv.make_side(d["job"]["B"]).prepare()
            print("narrowed pipeline builds now")
            return 0
        except Exception as e:
            print("narrowed pipeline still fails to build:", e)
            print(f"VIOLATION property={PROP} replay={path}")
            return 1
    return simple.replay_tv(PROP, path)
