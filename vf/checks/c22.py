"""C22 schema-check decorators raise exactly on schema violations.

Real data_schema.SchemaRaises (spec normalisation, check_args, check_return, _check_spec,
_check_data_frame_matches_schema, SchemaCheckSwitch) is executed by forksym on
  * scalar arguments / return values whose *type* is a symbolic tag (TagProxy: __class__ forks over the tag),
  * real pandas object-dtype frames whose column presence, cell nullness and cell types are symbolic.
Specification shapes (types, type sets, example values, example values inside sets, nested column dicts, None) and
the switch history (on/off at decoration and at call) are enumerated.  Oracle from the property text:
raise TypeError  <=>  checking is on at call time and (a declared argument is missing, or a declared column is missing,
or a non-null value has none of the declared types); otherwise the wrapped function's own result object is returned.
"""
import itertools
import json

import z3

from vf import forksym
from vf.forksym import B, Harness
from vf.common import Report

TYPES = [int, float, str, bool]
EXAMPLE = {int: 7, float: 1.5, str: "x", bool: True}


class TagProxy:
    """object whose class is decided by a symbolic tag (index into TYPES)"""

    def __init__(self, tag):
        object.__setattr__(self, "_tag", tag)

    @property
    def __class__(self):
        c = self.__dict__.get("_cls")
        if c is None:  # decided once per path: afterwards the path condition fixes the tag
            c = TYPES[-1]
            for i, t in enumerate(TYPES[:-1]):
                if B(self._tag == i):
                    c = t
                    break
            self.__dict__["_cls"] = c
        return c

    def __repr__(self):
        return "TagProxy(%s)" % (self._tag,)


def declared_types(spec):
    """python types a scalar spec declares (property: example values declare their own types); None = unconstrained"""
    if spec is None:
        return None
    if isinstance(spec, type):
        return {spec}
    if isinstance(spec, (set, frozenset)):
        out = set()
        for s in spec:
            if s is None:
                continue
            out |= {s} if isinstance(s, type) else {type(s)}
        return out
    return {type(spec)}


def z_conforms(tag, tset):
    """z3: a value of type TYPES[tag] is an instance of one of tset"""
    ok = [tag == i for i, t in enumerate(TYPES) if any(issubclass(t, d) for d in tset)]
    return z3.Or(ok) if ok else z3.BoolVal(False)


def _unset(spec):
    """specs are written with frozensets (hashable configs); the library is handed plain sets"""
    if isinstance(spec, frozenset):
        return set(spec)
    if isinstance(spec, dict):
        return {k: _unset(v) for k, v in spec.items()}
    return spec


class Slot:
    """a checked position (argument or return value) with its spec, symbolic value and violation formula"""

    def __init__(self, name, spec, rows, passkind, env):
        self.name, self.spec = name, spec
        self.viol = z3.BoolVal(False)
        if isinstance(spec, dict):  # data frame slot
            import pandas as pd

            if passkind == "notframe":
                self.value = env.scalar(name + "_nf")
                self.viol = z3.BoolVal(True)
                return
            cols = {}
            viol = []
            for c, cs in list(spec.items()) + [("extra_col", "undeclared")]:
                present = env.present(f"{name}.{c}")
                if cs != "undeclared":
                    viol.append(z3.Not(present))
                if B(present):
                    cells = []
                    for r in range(rows):
                        if cs == "undeclared":  # never inspected by the checker: one opaque non-null value
                            cells.append(env.scalar(f"{name}.{c}.{r}"))
                            continue
                        nul, tag, val = env.cell(f"{name}.{c}.{r}")
                        cells.append(val)
                        dt = declared_types(cs) if cs != "undeclared" else None
                        if dt is not None:
                            viol.append(z3.And(z3.Not(nul), z3.Not(z_conforms(tag, dt))))
                    cols[c] = cells
            self.value = pd.DataFrame({c: pd.Series(v, dtype=object) for c, v in cols.items()}, index=range(rows))
            self.viol = z3.Or(viol) if viol else z3.BoolVal(False)
        else:
            tag, val = env.scalar_tagged(name)
            self.value = val
            dt = declared_types(spec)
            if dt is not None:
                self.viol = z3.Not(z_conforms(tag, dt))


class SymEnv:
    def present(self, n):
        return z3.Bool("present:" + n)

    def cell(self, n):
        nul, tag = z3.Bool("null:" + n), z3.Int("tag:" + n)
        forksym.eng().assume(z3.And(tag >= 0, tag < len(TYPES)))
        if B(nul):
            return nul, tag, None
        return nul, tag, TagProxy(tag)

    def scalar_tagged(self, n):
        tag = z3.Int("tag:" + n)
        forksym.eng().assume(z3.And(tag >= 0, tag < len(TYPES)))
        return tag, TagProxy(tag)

    def scalar(self, n):
        return self.scalar_tagged(n)[1]


class ConcEnv:
    """concrete replay: values are real python objects"""

    def __init__(self, asg):
        self.asg = asg

    def present(self, n):
        return z3.BoolVal(bool(self.asg.get("present:" + n, False)))

    def cell(self, n):
        nul = bool(self.asg.get("null:" + n, False))
        tag = int(self.asg.get("tag:" + n, 0))
        return z3.BoolVal(nul), z3.IntVal(tag), (None if nul else EXAMPLE[TYPES[tag]])

    def scalar_tagged(self, n):
        tag = int(self.asg.get("tag:" + n, 0))
        return z3.IntVal(tag), EXAMPLE[TYPES[tag]]

    def scalar(self, n):
        return self.scalar_tagged(n)[1]


def scenario(cfg, env):
    """cfg = (spec_a, pass_a, spec_d, pass_d, rows, spec_ret, dec_on, call_on).  Returns z3 Bool 'behaved as documented'."""
    import data_algebra.data_schema as ds

    spec_a, pass_a, spec_d, pass_d, rows, spec_ret, dec_on, call_on = cfg
    arg_specs = {}
    if spec_a != "undeclared":
        arg_specs["a"] = _unset(spec_a)
    if spec_d != "undeclared":
        arg_specs["d"] = _unset(spec_d)
    sa = Slot("a", None if spec_a == "undeclared" else spec_a, rows, pass_a, env)
    sd = Slot("d", None if spec_d == "undeclared" else spec_d, rows, pass_d, env)
    sr = Slot("ret", spec_ret, rows, "pos", env)
    calls = []
    result_obj = sr.value

    def fn(a="default_a", d="default_d"):
        calls.append((a, d))
        return result_obj

    if pass_a == "pos_rest":
        # a function with *rest called with more positional values than named parameters: the extra values are nobody's declared argument
        def fn(a="default_a", *rest):  # noqa: F811
            calls.append((a, rest))
            return result_obj

    sw = ds.SchemaCheckSwitch()
    was = sw.is_on()
    try:
        (sw.on if dec_on else sw.off)()
        wrapped = ds.SchemaRaises(arg_specs, return_spec=_unset(spec_ret))(fn)
        (sw.on if call_on else sw.off)()
        args, kwargs = [], {}
        missing = []
        if pass_a == "pos":
            args.append(sa.value)
        elif pass_a == "pos_rest":
            args += [sa.value, 7, "extra"]
        elif pass_a == "kw":
            kwargs["a"] = sa.value
        elif spec_a != "undeclared":
            missing.append("a")
        if pass_d in ("pos", "notframe") and pass_a == "pos":
            args.append(sd.value)
        elif pass_d in ("pos", "kw", "notframe"):
            kwargs["d"] = sd.value
        elif spec_d != "undeclared":
            missing.append("d")
        raised = None
        got = None
        try:
            got = wrapped(*args, **kwargs)
        except TypeError as e:
            raised = e
    finally:
        (sw.on if was else sw.off)()
    arg_viol = z3.Or([z3.BoolVal(bool(missing))]
                     + ([sa.viol] if pass_a != "missing" and spec_a != "undeclared" else [])
                     + ([sd.viol] if pass_d != "missing" and spec_d != "undeclared" else []))
    ret_viol = sr.viol
    if not call_on:
        expect_raise = z3.BoolVal(False)
        expect_called = z3.BoolVal(True)
    else:
        expect_raise = z3.Or(arg_viol, ret_viol)
        expect_called = z3.Not(arg_viol)
    holds = [expect_raise == z3.BoolVal(raised is not None), expect_called == z3.BoolVal(len(calls) == 1)]
    if raised is None:
        holds.append(z3.BoolVal(got is result_obj))
    info = {"raised": None if raised is None else str(raised)[:200], "calls": len(calls)}
    return z3.And(holds), info


class H(Harness):
    def __init__(self, cfg, twin=False):
        self.cfg, self.twin = cfg, twin

    def run(self, eng):
        holds, info = scenario(self.cfg, SymEnv())
        if self.twin:  # weakened oracle: "never raises"
            return z3.BoolVal(info["raised"] is None), info
        return holds, info

    def concretize(self, model, info):
        asg = {}
        for d in model.decls():
            v = model[d]
            if z3.is_bool(v):
                asg[d.name()] = z3.is_true(v)
            elif z3.is_int_value(v):
                asg[d.name()] = v.as_long() % len(TYPES) if d.name().startswith("tag:") else v.as_long()
        return {"cfg": cfg_to_json(self.cfg), "assignment": asg, "symbolic_run": info}


def make(cfg, twin=False):
    return H(cfg, twin)


# ---------------------------------------------------------------- config (de)serialisation
def _enc(s):
    if s is None or s == "undeclared":
        return s
    if isinstance(s, type):
        return {"type": s.__name__}
    if isinstance(s, frozenset):
        return {"set": sorted((_enc(x) for x in s), key=repr)}
    if isinstance(s, dict):
        return {"cols": {k: _enc(v) for k, v in s.items()}}
    return {"example": s}


def _dec(j):
    if j is None or j == "undeclared":
        return j
    if "type" in j:
        return {t.__name__: t for t in TYPES}[j["type"]]
    if "set" in j:
        return frozenset(_dec(x) for x in j["set"])
    if "cols" in j:
        return {k: _dec(v) for k, v in j["cols"].items()}
    return j["example"]


def cfg_to_json(cfg):
    a, pa, d, pd_, rows, r, don, con = cfg
    return {"spec_a": _enc(a), "pass_a": pa, "spec_d": _enc(d), "pass_d": pd_, "rows": rows, "spec_ret": _enc(r), "dec_on": don, "call_on": con}


def cfg_from_json(j):
    return (_dec(j["spec_a"]), j["pass_a"], _dec(j["spec_d"]), j["pass_d"], j["rows"], _dec(j["spec_ret"]), j["dec_on"], j["call_on"])


def replay_input(inp):
    """real code on real python values; returns (holds, info)"""
    cfg = cfg_from_json(inp["cfg"])
    try:
        holds, info = scenario(cfg, ConcEnv(inp["assignment"]))
    except Exception as e:
        return False, {"exception": repr(e)}
    return z3.is_true(z3.simplify(holds)), info


SCALAR_SPECS = [None, int, float, str, bool, frozenset({int, float}), frozenset({str, bool}), 7, 1.5, "x", True,
                frozenset({7, "x"}), frozenset({int, 1.5}), frozenset({None, str}),
                # FALSY example values declare their types like any other example: 0, 0.0, "", False -- alone and inside sets
                0, 0.0, "", False, frozenset({0, ""}), frozenset({int, ""}), frozenset({0.0, str}), frozenset({False})]
FRAME_SPECS = [{"x": int}, {"x": int, "y": frozenset({str, float})}, {"x": None, "y": 1.5}, {"k": None}, {"x": frozenset({7, "x"})}]


def configs(tier):
    out = []
    # scalar argument a: every spec x pass kind ; frame slot undeclared
    for sa in SCALAR_SPECS:
        for pa in ("pos", "kw", "missing", "pos_rest"):
            out.append((sa, pa, "undeclared", "missing", 0, None, True, True))
    # return value specs
    for sr in SCALAR_SPECS:
        out.append((int, "pos", "undeclared", "missing", 0, sr, True, True))
    rows_l = (0, 1, 2) if tier == "quick" else (0, 1, 2, 3)
    for fd in FRAME_SPECS:
        for rows in rows_l:
            if len(fd) > 1 and rows > (1 if tier == "quick" else 2):
                continue
            for pd_ in ("pos", "kw"):
                out.append((int, "pos", fd, pd_, rows, None, True, True))
        out.append((int, "pos", fd, "missing", 1, None, True, True))
        out.append((int, "kw", fd, "notframe", 1, None, True, True))
        out.append(("undeclared", "missing", fd, "kw", 1, None, True, True))
        for rows in rows_l[:3]:
            if len(fd) > 1 and rows > 1:
                continue
            out.append((None, "pos", "undeclared", "missing", rows, fd, True, True))  # frame as return value
    # switch histories
    for don, con in itertools.product((True, False), repeat=2):
        out.append((int, "pos", {"x": int}, "kw", 1, str, don, con))
        out.append((frozenset({int, 1.5}), "kw", "undeclared", "missing", 0, {"x": int}, don, con))
    if tier == "thorough":
        for sa, sr in itertools.product(SCALAR_SPECS, SCALAR_SPECS):
            out.append((sa, "kw", {"x": sa if not isinstance(sa, dict) else int, "y": None}, "kw", 2, sr, True, True))
    seen, uniq = set(), []
    for c in out:
        k = json.dumps(cfg_to_json(c), sort_keys=True, default=repr)
        if k not in seen:
            seen.add(k)
            uniq.append(c)
    return uniq


def _job(j):
    cfg, twin = j
    st, res = forksym.explore_harness("vf.checks.c22:make", (cfg, twin), nproc=1, max_paths=30000, query_timeout_ms=10000)
    return j, st, res


def run(tier):
    rep = Report("C22", "other")
    cfgs = configs(tier)
    twins = [((int, "pos", {"x": int}, "kw", 1, None, True, True), True), ((str, "kw", "undeclared", "missing", 0, None, True, True), True)]
    results = forksym.run_parallel([(c, False) for c in cfgs] + twins, _job, nproc=16, chunksize=2)
    total = forksym.Stats()
    samples = []
    seen = set()
    for (cfg, twin), st, res in results:
        if twin:
            if not any(r["status"] == "cex" for r in res):
                rep.harness_error(f"vacuity: twin {cfg_to_json(cfg)} not refuted")
            continue
        total.add(st)
        if len(samples) < 6 and st.paths >= 4:
            samples.append({"config": cfg_to_json(cfg), "paths": st.paths, "discharged": st.discharged})
        for r in res:
            if r["status"] in ("cex", "error") and isinstance(r["input"], dict) and "cfg" in r["input"]:
                ok, info = replay_input(r["input"])
                sig = json.dumps(r["input"]["cfg"], sort_keys=True, default=repr)
                if ok:
                    rep.harness_error(f"counterexample did not reproduce: {r['input']} ({r['status']} {r['why'][-300:]})")
                elif sig not in seen:
                    seen.add(sig)
                    rep.violation({"property": "C22", "input": r["input"], "real_run": info, "why": r["why"][-1500:]},
                                  f"spec/config {r['input']['cfg']} values {r['input']['assignment']} -> {info}")
            elif r["status"] != "discharged":
                rep.harness_error(f"{cfg_to_json(cfg)}: {r['status']} {r['why'][-400:]}")
    rep.coverage = {
        "explanation": "Real SchemaRaises decorator executed symbolically: scalar values carry a symbolic type tag over {int,float,str,bool}; "
                       "data-frame arguments are real pandas object frames with symbolic column presence, cell nullness and cell type tags. "
                       "Per path z3 decides raised==oracle, function-called==oracle, result identity. Spec shapes and switch histories enumerated.",
        "functions_encoded": ["_prep_schema_specification", "SchemaRaises.__call__/check_args/check_return/_check_spec/_check_data_frame_matches_schema",
                              "SchemaCheckSwitch.on/off/is_on", "non-null test _is_null (pd.isnull runs concretely on None / proxy objects)"],
        "bounds": {"value_types": [t.__name__ for t in TYPES], "frame_rows": "0..2 quick / 0..3 thorough", "declared_columns": "<=2 (+1 undeclared extra column)",
                   "spec_shapes": len(SCALAR_SPECS) + len(FRAME_SPECS)},
        "configurations": len(cfgs),
        "obligations": total.paths, "discharged": total.discharged, "unknown": total.unknown, "truncated": total.truncated,
        "paths": total.paths, "branch_queries": total.branch_queries, "assert_queries": total.assert_queries, "solver_s": round(total.solver_s, 2),
        "samples": samples, "evaluations": total.paths, "distinct_nontrivial": total.paths,
        "rule": "one evaluation = one feasible path (spec shape x passing mode x type/null/presence pattern)",
        "exhaustive": not total.truncated,
    }
    rep.assumptions = ["null *scalar* arguments/returns are outside the claim (documentation ambiguous); null cells inside frames are covered",
                       "values are python int/float/str/bool objects; numpy scalar types (as produced by typed pandas columns) and Polars frames are outside the bound",
                       "error message text is not checked"]
    return rep.finish()


def replay(path):
    d = json.load(open(path))
    ok, info = replay_input(d["input"])
    print(d["input"], info, "holds" if ok else "FAILS")
    if not ok:
        print(f"VIOLATION property=C22 replay={path}")
        return 1
    return 0
