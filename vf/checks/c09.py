"""C09 Aggregation returns one row per group, and one row without grouping; windowed extend keeps every row.

Each backend (real Pandas executor over the pandas model, SQLite SQL, generic SQL under the PostgreSQL model) is compared with a
reference written from the property statement (vf.sym.refsem): one row per distinct key combination with null its own group, exactly
one row when ungrouped -- also on empty input and when every output is later overwritten, dropped or deselected (row-count oracle) --
and per-row group aggregates for windowed extend including the null-key partition."""
from vf.sym import progs, simple

PROP = "C09"
D = progs.D

PROJECTS = [  # (label, suffix, group_by, aggs)
    ("sum_max", ".project({'s': 'x.sum()', 'm': 'y.max()'}, group_by=['g'])", ["g"], [("s", "sum", "x"), ("m", "max", "y")]),
    ("size_mean_count", ".project({'n': '_size()', 'a': 'x.mean()', 'c': 'y.count()'}, group_by=['g'])", ["g"],
     [("n", "size", None), ("a", "mean", "x"), ("c", "count", "y")]),
    ("two_keys", ".project({'mn': 'y.min()'}, group_by=['g', 'x'])", ["g", "x"], [("mn", "min", "y")]),
    ("keys_only", ".project({}, group_by=['g'])", ["g"], []),
    ("ungrouped", ".project({'s': 'x.sum()', 'c': 'y.count()', 'n': '_size()'})", [], [("s", "sum", "x"), ("c", "count", "y"), ("n", "size", None)]),
    ("ungrouped_minmax", ".project({'mx': 'x.max()', 'mn': 'x.min()', 'a': 'y.mean()'})", [], [("mx", "max", "x"), ("mn", "min", "x"), ("a", "mean", "y")]),
]
# project then steps that overwrite / drop / deselect its outputs: only the number of rows is specified by the property
ROWCOUNT = [
    ("ung_overwrite", ".project({'s': 'x.max()'}).extend({'s': '1'})", []),
    ("ung_overwrite2", ".project({'s': 'x.sum()', 'c': 'y.count()'}).extend({'s': '1', 'c': '2'})", []),
    ("ung_drop", ".project({'s': 'x.sum()', 'c': 'y.count()'}).drop_columns(['s'])", []),
    ("ung_select", ".project({'s': 'x.sum()', 'c': 'y.count()'}).select_columns(['c'])", []),
    ("ung_size_over", ".project({'n': '_size()'}).extend({'n': '0'})", []),
    ("ung_map", ".project({'s': 'x.sum()'}).rename_columns({'t': 's'}).extend({'t': '5'})", []),
    ("ung_const_then_project", ".project({'s': 'x.sum()'}).extend({'s': '1'}).project({'n': '_size()'})", []),
    ("grp_drop", ".project({'s': 'x.sum()'}, group_by=['g']).drop_columns(['s'])", ["g"]),
    ("grp_overwrite", ".project({'s': 'x.sum()', 'm': 'y.max()'}, group_by=['g']).extend({'s': 'g', 'm': '1'})", ["g"]),
    ("grp_select_key", ".project({'s': 'x.sum()'}, group_by=['g']).select_columns(['g'])", ["g"]),
    ("grp_select_val", ".project({'s': 'x.sum()'}, group_by=['g']).select_columns(['s'])", ["g"]),
    ("grp_overwrite_key", ".project({'s': 'x.sum()'}, group_by=['g']).extend({'g': '1'})", ["g"]),
    ("grp2_drop", ".project({'mn': 'y.min()'}, group_by=['g', 'x']).drop_columns(['mn', 'x'])", ["g", "x"]),
]
WINDOWS = [
    ("w_sum_size_max", ".extend({'t': 'x.sum()', 'n': '_size()', 'm': 'y.max()'}, partition_by=['g'])", ["g"],
     [("t", "sum", "x"), ("n", "size", None), ("m", "max", "y")]),
    ("w_mean_min_count", ".extend({'a': 'x.mean()', 'mn': 'x.min()', 'c': 'x.count()'}, partition_by=['g', 'y'])", ["g", "y"],
     [("a", "mean", "x"), ("mn", "min", "x"), ("c", "count", "x")]),
    ("w_all_rows", ".extend({'t': 'x.sum()', 'n': '_size()'}, partition_by=1)", [], [("t", "sum", "x"), ("n", "size", None)]),
]
# two windowed extends in a row with DIFFERENT partitions (the builder may merge adjacent extends only when the partitions agree):
# (label, suffix, [(partition_by, aggs) per step])
WINDOW_CHAINS = [
    ("g_then_all", ".extend({'t': 'x.sum()'}, partition_by=['g']).extend({'u': 'y.sum()'}, partition_by=1)", [(["g"], [("t", "sum", "x")]), ([], [("u", "sum", "y")])]),
    ("all_then_g", ".extend({'u': 'y.sum()'}, partition_by=1).extend({'t': 'x.sum()'}, partition_by=['g'])", [([], [("u", "sum", "y")]), (["g"], [("t", "sum", "x")])]),
    ("g_then_empty_list", ".extend({'t': 'x.max()'}, partition_by=['g']).extend({'n': '_size()'}, partition_by=[])", [(["g"], [("t", "max", "x")]), ([], [("n", "size", None)])]),
    ("g_then_gy", ".extend({'t': 'x.sum()'}, partition_by=['g']).extend({'c': 'x.count()'}, partition_by=['g', 'y'])", [(["g"], [("t", "sum", "x")]), (["g", "y"], [("c", "count", "x")])]),
    ("gy_then_g", ".extend({'c': 'x.count()'}, partition_by=['g', 'y']).extend({'t': 'x.sum()'}, partition_by=['g'])", [(["g", "y"], [("c", "count", "x")]), (["g"], [("t", "sum", "x")])]),
]


def ref_window_chain(tabs, nrows, table, steps):
    """the window reference applied step after step (each step sees the previous step's table)"""
    from vf.sym import refsem

    cur, r = tabs, None
    for pb, aggs in steps:
        r = refsem.ref_window_group(cur, nrows, table, pb, [tuple(a) for a in aggs])
        cur = {table: {c: [row[i] for row in r.rows] for i, c in enumerate(r.cols)}}
    return r


BACKENDS = [("pandas", lambda s: {"kind": "pandas", "src": s}), ("sqlite", lambda s: {"kind": "sql", "src": s, "dialect": "sqlite"}),
            ("postgresql-model", lambda s: {"kind": "sql", "src": s, "dialect": "postgresql"})]


def build_jobs(tier, seed, kf_on):
    jobs = []
    schema = {"d": progs.SCHEMA["d"]}
    ns = [0, 1, 2, 3] if tier == "quick" else [0, 1, 2, 3, 4]
    for n in ns:
        rows = {"d": n}
        for bname, mk in BACKENDS:
            val = 0 if bname.startswith("postgresql") else 1
            for label, suf, gb, aggs in PROJECTS:
                ref = {"kind": "fn", "fn": "vf.sym.refsem:ref_project", "args": ["d", gb, aggs], "label": "one row per group"}
                jobs.append(simple.tv_job(f"project/{label}:{bname}@{n}", schema, rows, mk(D + suf), ref, kf_on, tier, validate=val, max_paths=6000))
            for label, suf, gb in ROWCOUNT:
                ref = {"kind": "fn", "fn": "vf.sym.refsem:ref_rowcount_groups", "args": ["d", gb], "label": "row count = number of groups"}
                jobs.append(simple.tv_job(f"rowcount/{label}:{bname}@{n}", schema, rows, mk(D + suf), ref, kf_on, tier, compare="rowcount", validate=val))
            for label, suf, pb, aggs in WINDOWS:
                ref = {"kind": "fn", "fn": "vf.sym.refsem:ref_window_group", "args": ["d", pb, aggs], "label": "group aggregate per row"}
                jobs.append(simple.tv_job(f"window/{label}:{bname}@{n}", schema, rows, mk(D + suf), ref, kf_on, tier, validate=val, max_paths=6000))
            for label, suf, steps in WINDOW_CHAINS:
                ref = {"kind": "fn", "fn": "vf.checks.c09:ref_window_chain", "args": ["d", steps], "label": "group aggregate per row, step after step"}
                jobs.append(simple.tv_job(f"window_chain/{label}:{bname}@{n}", schema, rows, mk(D + suf), ref, kf_on, tier, validate=val, max_paths=6000))
    return jobs


def run(tier):
    return simple.run_tv_check(
        PROP, tier, build_jobs,
        "project (grouped, ungrouped, keys-only, outputs later overwritten/dropped/deselected) and unordered windowed extend on each backend "
        "against a reference from the property statement: one row per distinct key combination (null its own group), exactly one row ungrouped "
        "(also on empty input), every input row kept with its partition's aggregate; z3 decides per structural path for all cell values.",
        {"functions_encoded": ["pandas_base._project_step / _extend_step (groupby, columns_to_frame_, table_is_keyed_by_columns)",
                               "sql_model.project_to_near_sql / extend_to_near_sql / nearsqlunary_to_sql_str_list_ (pruning of unused outputs)",
                               "reference: vf.sym.refsem.ref_project / ref_rowcount_groups / ref_window_group"],
         "bounds": {"rows": "0..3 quick / 0..4 thorough", "keys": "int (nullable), values real (nullable)"}},
        ["models as in C01; PostgreSQL semantics model-only", "sum/count over groups without non-null values are the accepted difference (not compared)",
         "Polars grouping is decided in C03 through agreement with Pandas"])


def replay(path):
    return simple.replay_tv(PROP, path)
