"""C12 Printed pipelines rebuild to equal pipelines with identical results.

For every pipeline of a bounded family (expression grammar rich in unary minus, powers, negative constants, nested parentheses,
methods on expressions, string constants with quotes / backslashes, lists, dicts; pipeline grammar with window options, joins, concat,
order/limit, renames): each printed form -- to_python(pretty=False), to_python(pretty=True) (black), repr() -- is evaluated with the
repository's eval_da_ops and must (i) compare == to the original (both directions) and (ii) denote the same function: original and
re-built pipeline are executed by the real Pandas executor over the pandas model on the same symbolic table and z3 decides equality for
all cell values (this catches a reprint that compares equal but means something else, and the converse).  pickle round trip: == and
identical printed form."""
import itertools
import json
import pickle
import warnings

from vf.common import Report
from vf.sym import progs, runner, simple, tv

PROP = "C12"
D = progs.D

ATOMS = ["x", "y", "(-x)", "2", "(-2)", "0.5", "(x + y)", "(x - 1)", "(-(x + 1))"]
OPS = ["+", "-", "*", "/", "**"]


def expressions(tier, seed):
    out = []
    # depth-2 binary trees, both groupings
    for o1, o2 in itertools.product(OPS, repeat=2):
        for a, b, c in itertools.product(["x", "(-x)", "2", "(-2)", "y"], repeat=3):
            out.append(f"({a} {o1} {b}) {o2} {c}")
            out.append(f"{a} {o1} ({b} {o2} {c})")
    out += [f"-({a} {o} {b})" for o in OPS for a, b in itertools.product(ATOMS[:5], repeat=2)]
    out += [f"(-{a}) {o} {b}" for o in OPS for a, b in itertools.product(["x", "2", "(x + y)"], repeat=2)]
    out += [f"({a}).{m}" for a in ["x", "-x", "x + y", "x * 2", "-(x + 1)", "x ** 2"] for m in ["abs()", "maximum(y)", "round()", "is_null()", "coalesce(0)", "sign()"]]
    out += ["x.maximum(-y)", "x.minimum(y + 1)", "(x > 1).if_else(-x, y ** 2)", "(x >= -1).where(1, -1)", "x.is_in([1, -2, 3.5])", "g.mapv({1: -1, 2: 20}, 0)",
            "(x > 1) and (y < -1)", "not (x > 1)", "(x == 1) or ((y != 2) and (x <= y))", "x %?% (-1)", "-x ** 2", "(-x) ** 2", "-(x ** 2)", "2 ** -x", "2 ** (-x)",
            "x ** y ** 2", "(x ** y) ** 2", "x - (y - 1)", "x - y - 1", "x / (y * 2)", "x / y * 2", "x // (y // 2)", "(x // y) // 2", "x % 3 * 2", "x % (3 * 2)",
            "- - x", "1 - -1", "x * -1", "x -- y", "+x", "-(-x)", "-(-(-x))", "(-x).abs()", "-x.abs()", "1 / -x", "-1 ** x", "(-1) ** x", "-x + -y", "-(x) * -(y)",
            "1 < x", "(1 < x) == (y > 2)", "x == -1", "-x == 1"]
    # a LITERAL as the receiver of a method (negative, zero, float, parenthesised) with one and with several arguments
    out += [f"({lit}).{m}" for lit in ["-1.5", "0", "2", "-3", "1.0", "-0.5"] for m in ["maximum(x)", "minimum(y)", "fmax(x)", "where(x, y)", "coalesce(x)", "abs()", "sign()"]]
    out += ["(x > 0).if_else(-1, 2)", "(x > 0).if_else((-1.5).maximum(y), (0).minimum(x))", "(-2).maximum(x).abs()", "(-(2)).maximum(x)"]
    seen, res = set(), []
    for e in out:
        if e not in seen:
            seen.add(e)
            res.append(e)
    if tier == "quick":
        res = res[::3] + [e for e in res if "**" in e and "-" in e][:150] + [e for e in res if e.startswith(("(-", "(0", "(1", "(2")) and ")." in e]
        res = list(dict.fromkeys(res))
    return res


STRINGS = ["a", "it's", 'say "hi"', "back\\slash", "q'\"both", "line\nbreak", "tab\tx", "percent %s", "-- comment", "unicode é中", "", " ", "\\'", "{brace}"]


def pipelines(tier, seed):
    ps = []
    for i, e in enumerate(expressions(tier, seed)):
        kind = "select_rows" if any(t in e for t in (" and ", " or ", "not ", " < ", " > ", " == ", " != ", " <= ", " >= ")) and "if_else" not in e and "where" not in e else "extend"
        src = f"{D}.select_rows({e!r})" if kind == "select_rows" else f"{D}.extend({{'w': {e!r}}})"
        ps.append((f"expr[{e}]", src))
    for s in STRINGS:
        ps.append((f"str[{s!r}]", f"{D}.extend({{'s': {json.dumps(s)!r}}})" if False else f"{D}.extend({{'s': {repr(repr(s))}}})"))
        ps.append((f"mapstr[{s!r}]", f"{D}.extend({{'m': {('g.mapv({1: ' + repr(s) + '}, ' + repr('d') + ')')!r}}})"))
    for label, src, tables in progs.enumerate_programs(1):
        ps.append((label, src))
    pairs = progs.enumerate_programs(2)
    for label, src, tables in ([p for p in pairs if progs.quick_keep(p[0], 5)] if tier == "quick" else pairs):
        ps.append((label, src))
    extra = [
        ("window_opts", f"{D}.extend({{'r': '_row_number()', 's': 'x.shift(2)', 'l': 'x.shift(-1)'}}, partition_by=['g', 'y'], order_by=['x'], reverse=['x'])"),
        ("window_all", f"{D}.extend({{'t': 'x.sum()'}}, partition_by=1)"),
        ("join_on_pairs", f"{D}.natural_join(b={progs.K}, on=[('g', 'k')], jointype='right', check_all_common_keys_in_equi_spec=True)"),
        ("concat_names", f"{D}.concat_rows(b={progs.F}, id_column='which', a_name='left side', b_name=\"b'q\")"),
        ("concat_id_table_name", f"{D}.concat_rows(b={progs.F}, id_column='table_name')"),
        ("concat_id_source_name", f"{D}.concat_rows(b={progs.F}, id_column='source_name', a_name='b', b_name='a')"),
        ("concat_defaults", f"{D}.concat_rows(b={progs.F})"),
        ("concat_id_none", f"{D}.concat_rows(b={progs.F}, id_column=None)"),
        ("join_defaults", f"{D}.natural_join(b={progs.E}, on=['g'], jointype='inner', check_all_common_keys_in_equi_spec=False)"),
        ("order_defaults", f"{D}.order_rows(['x'], reverse=[], limit=None)"),
        ("extend_partition_empty", f"{D}.extend({{'w': 'x + 1'}}, partition_by=[], order_by=[], reverse=[])"),
        ("project_no_group", f"{D}.project({{'s': 'x.sum()'}}, group_by=[])"),
        ("order_limit0", f"{D}.order_rows(['g', 'x'], reverse=['g'], limit=0)"),
        ("project_const", f"{D}.project({{'c': '(1).sum()', 'm': 'x.max()'}}, group_by=['g'])"),
        ("map_swap_drop", f"{D}.map_columns({{'x': 'y', 'y': 'x'}}).drop_columns(['g'])"),
    ]
    ps += extra
    return ps


def _forms(ops):
    return {"to_python": ops.to_python(pretty=False), "to_python_pretty": ops.to_python(pretty=True), "repr": repr(ops)}


def build(tier, seed, kf_on):
    from data_algebra.expr_parse_fn import eval_da_ops

    jobs, structural, n = [], [], 0
    for label, src in pipelines(tier, seed):
        ops = progs.try_build(src)
        if ops is None:
            continue
        n += 1
        tables = progs.tables_of(ops)
        if not all(t in progs.SCHEMA for t in tables):
            continue
        try:
            forms = _forms(ops)
        except Exception as e:
            structural.append({"kind": "printing_raises", "src": src, "error": f"{type(e).__name__}: {str(e)[:200]}"})
            continue
        seen_txt = set()
        for fname, txt in forms.items():
            try:
                with warnings.catch_warnings():
                    warnings.simplefilter("ignore")
                    back = eval_da_ops(txt, data_model_map=None)
            except Exception as e:
                structural.append({"kind": "printed_form_does_not_evaluate", "form": fname, "src": src, "printed": txt, "error": f"{type(e).__name__}: {str(e)[:200]}"})
                continue
            try:
                eq = (back == ops) and (ops == back)
            except Exception as e:
                eq = False
            if not eq:
                structural.append({"kind": "rebuilt_not_equal", "form": fname, "src": src, "printed": txt})
            if txt in seen_txt:
                continue
            seen_txt.add(txt)
            schema = {t: progs.SCHEMA[t] for t in tables}
            rows = {t: (2 if i < 2 else 1) for i, t in enumerate(tables)} if not label.startswith("expr[") else {t: 1 for t in tables}
            jobs.append(simple.tv_job(f"{label}:{fname}", schema, rows, {"kind": "pandas", "src": src}, {"kind": "pandas", "src": txt}, kf_on, tier,
                                      max_paths=300 if tier == "quick" else 3000, wall_s=60, validate=(1 if fname == "to_python" else 0)))
        try:
            back = pickle.loads(pickle.dumps(ops))
            if not (back == ops and ops == back) or back.to_python(pretty=False) != forms["to_python"]:
                structural.append({"kind": "pickle_round_trip", "src": src})
        except Exception as e:
            structural.append({"kind": "pickle_raises", "src": src, "error": f"{type(e).__name__}: {str(e)[:200]}"})
    return jobs, structural, n


def run(tier):
    rep = Report(PROP, "translation_validation")
    kf_on, entries = runner.kf_taints(PROP)
    jobs, structural, n = build(tier, rep.seed, sorted(kf_on))
    results = runner.run_jobs(jobs)
    runner.fold(rep, PROP, jobs, results,
                "Printed forms (to_python plain / black, repr) re-evaluated by the repository's eval_da_ops: == with the original, and the original vs the "
                "re-built pipeline executed by the real Pandas executor over the pandas model on the same symbolic table (z3 per-path equality); pickle round trip.",
                {"functions_encoded": ["expr_rep.*.to_python (inline / method / parens handling)", "view_representations.*.to_python_src_ / to_python / __repr__",
                                       "expr_parse_fn.eval_da_ops", "fmt_python (black)", "parse_by_lark (re-parse)"],
                 "bounds": {"pipelines": n, "expression_family": "depth-2 binary trees over + - * / ** with unary minus and negative constants, methods on expressions, listed edge cases",
                            "strings": STRINGS, "rows": "1 (expression programs) / 2"},
                 "structural_obligations_failed": len(structural)})
    for s in structural[:60]:
        rep.violation({"property": PROP, **s}, f"{s['kind']}: {json.dumps({k: v for k, v in s.items() if k != 'kind'})[:400]}")
    rep.assumptions = ["pandas model as in C01 (both sides); ** with a symbolic exponent and transcendental functions are uninterpreted (so regrouping is visible)",
                       "division by zero / integer division / % results are accepted-difference values (not compared)",
                       "strings: constants only (string columns with symbolic content are exercised in C14)"]
    runner.replay_known(rep, PROP, entries)
    return rep.finish()


def replay(path):
    from data_algebra.expr_parse_fn import eval_da_ops

    d = json.load(open(path))
    k = d.get("kind")
    if k:
        bad = True
        try:
            ops = tv.build_ops(d["src"])
            if k in ("rebuilt_not_equal", "printed_form_does_not_evaluate"):
                txt = _forms(ops)[d["form"]]
                back = eval_da_ops(txt, data_model_map=None)
                bad = not ((back == ops) and (ops == back))
            elif k.startswith("pickle"):
                back = pickle.loads(pickle.dumps(ops))
                bad = not (back == ops)
            elif k == "printing_raises":
                _forms(ops)
                bad = False
        except Exception as e:
            print("raises:", e)
            bad = True
        print("replay", k, "->", bad)
        if bad:
            print(f"VIOLATION property={PROP} replay={path}")
            return 1
        return 0
    return simple.replay_tv(PROP, path)
