"""C17 Record transforms are invertible and compose as documented.

Control tables are enumerated (2-3 block rows, 1-2 value columns, one or two control-key columns, with / without record keys, value
layouts that permute the row-form columns); the DATA are symbolic: a row-record table R with symbolic cells (record keys pairwise
distinct = the keyedness premise); conforming block tables are R pushed through a reference unpivot (pure data movement), with rows and
columns permuted.  Through the real RecordMap.transform / inverse / compose and the real executors' blocks_to_rowrecs /
rowrecs_to_blocks (Pandas executor over the pandas model, Polars over the polars stand-in) z3 decides, for all cell values:
  rows->blocks == reference blocks;  blocks->rows (any row / column order of the blocks) == R;
  inverse().transform(transform(R)) == R;  compose(a, b).transform(T) == a.transform(b.transform(T));  Pandas == Polars."""
import itertools
import json

from vf.common import Report
from vf.sym import progs, runner, simple, tv

PROP = "C17"


def layouts(tier):
    L = []
    L.append({"name": "2x1", "record_keys": ["id"], "key_cols": ["k"], "control": {"k": ["a", "b"], "v": ["x", "y"]}, "rowcols": ["x", "y"]})
    L.append({"name": "2x1_swapped", "record_keys": ["id"], "key_cols": ["k"], "control": {"k": ["b", "a"], "v": ["x", "y"]}, "rowcols": ["x", "y"]})
    L.append({"name": "2x2", "record_keys": ["id"], "key_cols": ["k"], "control": {"k": ["a", "b"], "v": ["x", "y"], "w": ["x2", "y2"]}, "rowcols": ["x", "y", "x2", "y2"]})
    L.append({"name": "2x2_crossed", "record_keys": ["id"], "key_cols": ["k"], "control": {"k": ["a", "b"], "w": ["x2", "y"], "v": ["x", "y2"]}, "rowcols": ["x", "y", "x2", "y2"]})
    L.append({"name": "3x1", "record_keys": ["id"], "key_cols": ["k"], "control": {"k": ["a", "b", "c"], "v": ["x", "y", "x2"]}, "rowcols": ["x", "y", "x2"]})
    L.append({"name": "2keys", "record_keys": ["id"], "key_cols": ["k", "k2"], "control": {"k": ["a", "a", "b"], "k2": ["p", "q", "p"], "v": ["x", "y", "x2"]}, "rowcols": ["x", "y", "x2"]})
    L.append({"name": "no_record_key", "record_keys": [], "key_cols": ["k"], "control": {"k": ["a", "b"], "v": ["x", "y"]}, "rowcols": ["x", "y"]})
    L.append({"name": "two_record_keys", "record_keys": ["id", "id2"], "key_cols": ["k"], "control": {"k": ["a", "b"], "v": ["x", "y"]}, "rowcols": ["x", "y"]})
    return L


def spec_src(lay):
    ctl = "pd.DataFrame({" + ", ".join(f"{c!r}: {v!r}" for c, v in lay["control"].items()) + "})"
    return f"RecordSpecification({ctl}, record_keys={lay['record_keys']!r}, control_table_keys={lay['key_cols']!r})"


def schema_for(lay):
    cols = [(c, "i", False) for c in lay["record_keys"]] + [(c, "f", True) for c in lay["rowcols"]]
    return {"r": cols}


def build_jobs(tier, seed, kf_on):
    jobs = []
    for lay in layouts(tier):
        rk = lay["record_keys"]
        rowtab = f"TableDescription(table_name='r', column_names={rk + lay['rowcols']!r})"
        blkcols = rk + list(lay["control"].keys())
        blktab = f"TableDescription(table_name='blk', column_names={blkcols!r})"
        out_src = f"{rowtab}.convert_records(RecordMap(blocks_out={spec_src(lay)}))"
        in_src = f"{blktab}.convert_records(RecordMap(blocks_in={spec_src(lay)}))"
        rt_src = (f"{rowtab}.convert_records(RecordMap(blocks_out={spec_src(lay)})).convert_records(RecordMap(blocks_out={spec_src(lay)}).inverse())")
        schema = schema_for(lay)
        ns = [1, 2] if rk else [1]
        if tier != "quick" and rk:
            ns = [1, 2, 3]
        nctl = len(lay["control"][lay["key_cols"][0]])
        for n in ns:
            rows = {"r": n}
            assume = [("distinct", "r", rk)] if rk else []
            lay_j = {k: lay[k] for k in ("record_keys", "key_cols", "control")}
            ref_blk = {"kind": "fn", "fn": "vf.sym.refsem:ref_blocks", "args": ["r", lay_j], "label": "reference unpivot"}
            ref_rows = {"kind": "fn", "fn": "vf.sym.refsem:ref_rows", "args": ["r", rk + lay["rowcols"]], "label": "the original row records"}
            m = n * nctl
            perms = [None, list(reversed(range(m)))] + ([list(range(1, m)) + [0]] if m > 2 else [])
            colorders = [None, list(reversed(blkcols))]
            for backend in ("pandas", "polars", "sqlite", "postgresql-model"):
                def side(src, inmap=None):
                    d = {"kind": backend, "src": src}
                    if backend in ("sqlite", "postgresql-model"):
                        # the SQL text the real to_sql emits for the convert_records step (cdata's blocks_to_rowrecs / rowrecs_to_blocks SQL)
                        d = {"kind": "sql", "src": src, "dialect": backend.split("-")[0]}
                    if inmap:
                        d["inmap"] = inmap
                    return d
                common = dict(assume=assume, max_paths=3000 if tier == "quick" else 20000, wall_s=120, b_may_raise=False, ordered=False)
                if backend == "postgresql-model":
                    common["validate"] = 0
                jobs.append(simple.tv_job(f"{lay['name']} rows->blocks:{backend}@{n}", schema, rows, side(out_src), ref_blk, kf_on, tier, **common))
                jobs.append(simple.tv_job(f"{lay['name']} round-trip inverse:{backend}@{n}", schema, rows, side(rt_src), ref_rows, kf_on, tier, **common))
                for p, co in itertools.product(perms, colorders):
                    if tier == "quick" and p is not None and co is not None and n > 1:
                        continue
                    im = {"__fn__": ("vf.sym.refsem:unpivot_tables", ["r", "blk", lay_j, p, co]), "r": {"drop": True}}
                    jobs.append(simple.tv_job(f"{lay['name']} blocks->rows perm={p} cols={'rev' if co else 'std'}:{backend}@{n}", schema, rows, side(in_src, im), ref_rows, kf_on, tier, **common))
                    if backend not in ("pandas", "polars"):
                        continue
                    # the same through RecordMap.transform(frame) directly: the frame's own column order reaches the transform
                    rm_in = f"RecordMap(blocks_in={spec_src(lay)})"
                    jobs.append(simple.tv_job(f"{lay['name']} transform(blocks) perm={p} cols={'rev' if co else 'std'}:{backend}@{n}", schema, rows,
                                              {"kind": "recmap", "rm": rm_in, "table": "blk", "backend": backend, "inmap": im}, ref_rows, kf_on, tier, **common))
                if backend not in ("pandas", "polars"):
                    continue
                rm_out = f"RecordMap(blocks_out={spec_src(lay)})"
                jobs.append(simple.tv_job(f"{lay['name']} transform(rows):{backend}@{n}", schema, rows, {"kind": "recmap", "rm": rm_out, "table": "r", "backend": backend}, ref_blk, kf_on, tier, **common))
            # Pandas == Polars on the transform itself
            jobs.append(simple.tv_job(f"{lay['name']} rows->blocks pandas==polars@{n}", schema, rows, {"kind": "pandas", "src": out_src}, {"kind": "polars", "src": out_src}, kf_on, tier,
                                      assume=assume, max_paths=3000, wall_s=120))
    return jobs


def compose_checks():
    """compose(a, b) vs sequential application on the record maps' own example inputs and on shuffled concrete tables (structural + concrete)"""
    import pandas as pd
    import warnings
    from data_algebra.cdata import RecordMap, RecordSpecification

    fails, n = [], 0
    L = {l["name"]: l for l in layouts("quick")}

    def spec(lay, ctl=None):
        return RecordSpecification(pd.DataFrame(ctl or lay["control"]), record_keys=lay["record_keys"], control_table_keys=lay["key_cols"])

    a_lay, b_lay = L["2x1"], L["2x1_swapped"]
    other = {"kk": ["p", "q"], "val": ["x", "y"]}
    combos = [
        ("unpivot then pivot (inverse)", RecordMap(blocks_out=spec(a_lay)), RecordMap(blocks_in=spec(a_lay))),
        ("pivot then unpivot other layout", RecordMap(blocks_in=spec(a_lay)), RecordMap(blocks_out=RecordSpecification(pd.DataFrame(other), record_keys=["id"], control_table_keys=["kk"]))),
        ("block to block", RecordMap(blocks_in=spec(a_lay), blocks_out=RecordSpecification(pd.DataFrame(other), record_keys=["id"], control_table_keys=["kk"])),
         RecordMap(blocks_in=RecordSpecification(pd.DataFrame(other), record_keys=["id"], control_table_keys=["kk"]), blocks_out=spec(b_lay))),
        ("block to block then pivot", RecordMap(blocks_in=spec(a_lay), blocks_out=RecordSpecification(pd.DataFrame(other), record_keys=["id"], control_table_keys=["kk"])),
         RecordMap(blocks_in=RecordSpecification(pd.DataFrame(other), record_keys=["id"], control_table_keys=["kk"]))),
    ]
    for label, first, second in combos:
        n += 1
        try:
            with warnings.catch_warnings():
                warnings.simplefilter("ignore")
                comp = second.compose(first)
                comp2 = first >> second
                inp = first.example_input()
                inp = pd.concat([inp, inp.assign(id=inp["id"].astype(str) + "_2")], ignore_index=True).sample(frac=1.0, random_state=3).reset_index(drop=True)
                seq = second.transform(first.transform(inp))
                for name, c in (("compose", comp), (">>", comp2)):
                    if c is None:
                        got = inp
                    else:
                        got = c.transform(inp)
                    a = got.sort_values(list(got.columns)).reset_index(drop=True)
                    b = seq[list(got.columns)].sort_values(list(got.columns)).reset_index(drop=True)
                    if not a.equals(b):
                        fails.append({"kind": "compose", "case": label, "form": name, "got": a.to_dict("list"), "expected": b.to_dict("list")})
        except Exception as e:
            fails.append({"kind": "compose", "case": label, "error": f"{type(e).__name__}: {str(e)[:200]}"})
    return n, fails


def run(tier):
    rep = Report(PROP, "translation_validation")
    kf_on, entries = runner.kf_taints(PROP)
    jobs = build_jobs(tier, rep.seed, sorted(kf_on))
    results = runner.run_jobs(jobs)
    n_c, f_c = compose_checks()
    runner.fold(rep, PROP, jobs, results,
                "Enumerated control-table layouts x symbolic row-record data: rows->blocks vs a reference unpivot, blocks->rows of row/column-permuted conforming blocks vs the "
                "original records, inverse round trip, Pandas == Polars -- through the real RecordMap and the real executors' record transforms over the models, z3 per-path "
                "equality; compose() vs sequential application on the maps' example inputs (concrete).",
                {"functions_encoded": ["cdata.RecordSpecification / RecordMap.transform / inverse / compose", "pandas_base.blocks_to_rowrecs / rowrecs_to_blocks",
                                       "polars_model.blocks_to_rowrecs / rowrecs_to_blocks", "reference: vf.sym.refsem.unpivot_tables"],
                 "bounds": {"layouts": [l["name"] for l in layouts(tier)], "records": "1..2 quick / 1..3 thorough", "block_row_permutations": "identity, reversed, rotated", "block_column_orders": "declared, reversed"},
                 "compose_cases": n_c, "compose_failures": len(f_c)}, min_conclusive=0.3)
    for f in f_c:
        rep.violation({"property": PROP, **f}, f"compose: {json.dumps(f, default=str)[:400]}")
    rep.assumptions = ["record keys pairwise distinct (keyedness premise) and blocks complete by construction (conforming tables)", "control tables are concrete (enumerated), data cells symbolic reals with missing values",
                       "compose() is checked on concrete example inputs (it builds its result from example data), not symbolically",
                       "models as in C01 / C03"]
    runner.replay_known(rep, PROP, entries)
    return rep.finish()


def replay(path):
    d = json.load(open(path))
    if d.get("kind") == "compose":
        n, fails = compose_checks()
        bad = any(f.get("case") == d.get("case") for f in fails)
        print("replay compose", d.get("case"), "->", bad)
        if bad:
            print(f"VIOLATION property={PROP} replay={path}")
            return 1
        return 0
    return simple.replay_tv(PROP, path)
