"""C06 Builder simplifications never change what a pipeline means.

For every step sequence of a bounded vocabulary (repeated / overwriting / read-after-write extends, windowed extends, order_rows with and
without limit, select/drop collapses, joins with the key check requested): the pipeline built by CHAINING the steps (where the real
builder merges extends, collapses selections and removes intermediate order_rows) is compared, over symbolic input tables, with applying
each step in turn to the materialised result of the previous one; both run through the real Pandas executor over the pandas model and z3
decides table equality per structural path.  The accept/reject half is decided by building both forms."""
import itertools
import json

from vf.common import Report
from vf.sym import progs, runner, simple, tv

PROP = "C06"
D, E, F = progs.D, progs.E, progs.F

STEPS = {
    "x=x+1": ".extend({'x': 'x + 1'})",
    "y=x*2": ".extend({'y': 'x * 2'})",
    "x=y+5": ".extend({'x': 'y + 5'})",
    "x=g+1,y=x*10": ".extend({'x': 'g + 1', 'y': 'x * 10'})",
    "w=x+y": ".extend({'w': 'x + y'})",
    "w=1": ".extend({'w': '1'})",
    "x=w+1": ".extend({'x': 'w + 1'})",
    "w=y,y=x": ".extend({'w': 'y', 'y': 'x'})",
    "x=5,y=y+1": ".extend({'x': '5', 'y': 'y + 1'})",
    "x=7,w=y*2": ".extend({'x': '7', 'w': 'y * 2'})",
    "x=x*2,w=g": ".extend({'x': 'x * 2', 'w': 'g'})",
    "t=sum(x)/g": ".extend({'t': 'x.sum()'}, partition_by=['g'])",
    "x=max(x)/g": ".extend({'x': 'x.max()'}, partition_by=['g'])",
    "y=t+1": ".extend({'y': 't + 1'})",
    "r=rownum/g,x": ".extend({'r': '_row_number()'}, partition_by=['g'], order_by=['x'])",
    "order(x)": ".order_rows(['x'])",
    "order(x,lim1)": ".order_rows(['x'], limit=1)",
    "order(-x,lim2)": ".order_rows(['x'], reverse=['x'], limit=2)",
    "order(y,lim0)": ".order_rows(['y'], limit=0)",
    "sel(g,x)": ".select_columns(['g', 'x'])",
    "sel(x)": ".select_columns(['x'])",
    "sel(g,y)": ".select_columns(['g', 'y'])",
    "drop(y)": ".drop_columns(['y'])",
    "drop(x)": ".drop_columns(['x'])",
    "rows(x>1)": ".select_rows('x > 1')",
    "sum(x)/g": ".project({'x': 'x.sum()'}, group_by=['g'])",
    "ren(x2=x)": ".rename_columns({'x2': 'x'})",
    "join(e,check)": f".natural_join(b={E}, on=['g'], jointype='left', check_all_common_keys_in_equi_spec=True)",
    "join(f,check)": f".natural_join(b={F}, on=['g'], jointype='left', check_all_common_keys_in_equi_spec=True)",
    "join(f)": f".natural_join(b={F}, on=['g'], jointype='inner')",
}
CORE = ["x=x+1", "y=x*2", "x=y+5", "x=g+1,y=x*10", "w=x+y", "x=w+1", "w=y,y=x", "x=5,y=y+1", "x=7,w=y*2", "x=max(x)/g", "order(x)", "order(x,lim1)", "order(y,lim0)",
        "sel(g,x)", "sel(g,y)", "drop(y)", "drop(x)"]


def sequences(tier, seed):
    names = list(STEPS)
    seqs = [(a,) for a in names] + list(itertools.product(names, repeat=2)) + list(itertools.product(CORE, repeat=3))
    if tier == "thorough":
        import random

        rng = random.Random(seed)
        seqs += [tuple(rng.choice(names) for _ in range(rng.choice([3, 4]))) for _ in range(1500)]
    return seqs


def _build_both(seq):
    """(chained_ok, chained_err, step_ok, step_err, tables)"""
    chained = D + "".join(STEPS[s] for s in seq)
    c_ops = progs.try_build(chained)
    side = tv.PandasStepsSide(D, [STEPS[s] for s in seq], "d")
    try:
        side.prepare()
        s_ok = True
        tabs = set()
        for _, o in side.step_ops:
            tabs.update(o.get_tables().keys())
        tabs = sorted(t for t in tabs if not t.startswith("step_"))
    except Exception:
        s_ok = False
        tabs = None
    return c_ops, s_ok, tabs


def build_jobs_and_builder_findings(tier, seed, kf_on):
    jobs, mismatches, both_reject = [], [], 0
    for seq in sequences(tier, seed):
        c_ops, s_ok, tabs = _build_both(seq)
        if (c_ops is not None) != s_ok:
            mismatches.append({"sequence": list(seq), "chained_accepts": c_ops is not None, "step_by_step_accepts": s_ok})
            continue
        if c_ops is None:
            both_reject += 1
            continue
        tables = sorted(set(tabs) | {"d"})
        schema = {t: progs.SCHEMA[t] for t in tables}
        chained = D + "".join(STEPS[s] for s in seq)
        n = 2 if tier == "quick" else 3
        rows = {t: (n if i < 2 else 1) for i, t in enumerate(tables)}
        jobs.append(simple.tv_job("|".join(seq), schema, rows, {"kind": "pandas", "src": chained},
                                  {"kind": "pandas_steps", "base": D, "steps": [STEPS[s] for s in seq], "base_table": "d"}, kf_on, tier,
                                  max_paths=800 if tier == "quick" else 6000, wall_s=30 if tier == "quick" else 200))
    return jobs, mismatches, both_reject


def run(tier):
    rep = Report(PROP, "translation_validation")
    kf_on, entries = runner.kf_taints(PROP)
    jobs, mismatches, both_reject = build_jobs_and_builder_findings(tier, rep.seed, sorted(kf_on))
    results = runner.run_jobs(jobs)
    cov = runner.fold(rep, PROP, jobs, results,
                      "Chained pipeline (real builder simplifications: extend merging, select/drop collapsing, intermediate order_rows removal) versus "
                      "step-by-step application on materialised intermediate results, both through the real Pandas executor over the pandas model; z3 "
                      "decides equality for all cell values per structural path.  Accept/reject: both forms are built and must agree.",
                      {"functions_encoded": ["view_representations.ViewRepresentation.extend_parsed_/select_columns/drop_columns/order_rows/natural_join builders, is_trivial_when_intermediate_",
                                             "data_ops_utils.try_to_merge_ops", "pandas_base executor (both sides)"],
                       "bounds": {"sequences": "all 1- and 2-step sequences of %d steps, all triples of %d core steps%s" % (len(STEPS), len(CORE), ", seeded random 3-4 step sequences" if tier == "thorough" else ""),
                                  "rows": "2 per table quick / 3 thorough"},
                       "accept_reject_sequences_compared": len(jobs) + len(mismatches) + both_reject, "both_forms_reject": both_reject,
                       "accept_reject_mismatches": len(mismatches)})
    for m in mismatches[:50]:
        rep.violation({"property": PROP, "kind": "accept_reject", **m},
                      f"chained {'accepts' if m['chained_accepts'] else 'rejects'} but step-by-step {'accepts' if m['step_by_step_accepts'] else 'rejects'}: {m['sequence']}")
    rep.assumptions = ["pandas model as in C01 (both sides use it, so a model error cancels unless it is order/index related); counterexamples replayed on real pandas",
                       "only the Pandas executor defines 'meaning' here; SQL of simplified pipelines is covered by C01/C04",
                       "order_rows with limit on ties: both forms use the same stable sort, compared as multisets"]
    runner.replay_known(rep, PROP, entries)
    return rep.finish()


def replay(path):
    d = json.load(open(path))
    if d.get("kind") == "accept_reject":
        c_ops, s_ok, _ = _build_both(tuple(d["sequence"]))
        bad = (c_ops is not None) != s_ok
        print("sequence", d["sequence"], "chained accepts:", c_ops is not None, "step-by-step accepts:", s_ok)
        if bad:
            print(f"VIOLATION property={PROP} replay={path}")
            return 1
        return 0
    return simple.replay_tv(PROP, path)
