"""C25 the evaluation result cache is transparent.

Real eval_cache.hash_data_frame / make_cache_key / EvalKey / ResultCache.get/store run under forksym.
Symbolic: dialect name and SQL text (z3 Strings behind Name proxies -- they sit inside the real EvalKey tuple and the
real dict), every cell of every input/result frame (z3 Ints).  Enumerated: table names, column lists (incl. permuted
labels), shapes.  C boundary (assumption, not decided): pandas' hash_pandas_object + SHA-256 are modelled as ONE
function that is injective on a frame's *positional* cell contents and blind to column labels (that is what pandas
does: labels are not hashed) -- implemented by handing out one concrete token per content-equivalence class, the
class being decided by forking on z3 equality of the cells.
Scenario = store(E1); store(E2); caller mutates its own result objects; get(L); mutate the returned copy; get(L) again.
Asserted (soundness direction only, as the property states it): a hit implies some stored entry has the same dialect,
SQL and data map (names, column lists, shapes, contents); the value returned equals the last result stored under that
key, is a fresh object, and neither caller-side nor copy-side mutation reaches the cache; dirty is set exactly when a
store changes the cache.  Whether equal keys always hit is recorded as information only.
"""
import itertools
import json

import z3

from vf import forksym
from vf.forksym import B, Name, Harness
from vf.common import Report

LAYOUTS = {
    "ab1": (["a", "b"], 1),
    "ba1": (["b", "a"], 1),
    "a1": (["a"], 1),
    "a2": (["a"], 2),
    "ab2": (["a", "b"], 2),
    "e0": (["a"], 0),
    # label lists that only differ in where a separator-like character sits / in the label's type: an unambiguous key keeps them apart
    "x_y,z": (["x_y", "z"], 1),
    "x,y_z": (["x", "y_z"], 1),
    "int1": ([1], 1),
    "str1": (["1"], 1),
    "q1": (["a', 'b", "c"], 1),
    "q2": (["a", "b', 'c"], 1),
    "sp1": (["a b", "c"], 1),
    "sp2": (["a", "b c"], 1),
    # columns whose DTYPE is symbolic too (int64 / float64 / bool with the same bit patterns): the row hash sees the raw buffers only
    "t1": (["a"], 1),
    "t2": (["a"], 2),
    "tb1": (["a", "b"], 1),
}
SYM_DTYPE_LAYOUTS = {"t1", "t2", "tb1"}
ADVERSARIAL = [("x_y,z", "x,y_z"), ("int1", "str1"), ("q1", "q2"), ("sp1", "sp2")]


DTYPE_NAMES = ["int64", "float64", "bool"]


class SymDType:
    """a column dtype whose identity is a z3 Int tag (0 int64, 1 float64, 2 bool): printing it is a structural decision, forked on"""

    def __init__(self, tag):
        self.tag = tag

    def __str__(self):
        for i, n in enumerate(DTYPE_NAMES[:-1]):
            if B(self.tag == i):
                return n
        return DTYPE_NAMES[-1]

    __repr__ = __str__


class FakeFrame:
    """stand-in for a pandas frame: concrete labels/shape, symbolic cells (positional list of columns; a cell = its 64-bit pattern as an integer)
    and a symbolic dtype per column"""

    def __init__(self, columns, cells, dtypes=None):
        self.columns = list(columns)
        self.cells = [list(c) for c in cells]
        nrow = len(self.cells[0]) if self.cells else 0
        self.shape = (nrow, len(self.columns))
        self.dtypes = list(dtypes) if dtypes is not None else [SymDType(z3.IntVal(0)) for _ in self.columns]

    def copy(self):
        return FakeFrame(self.columns, self.cells, self.dtypes)

    def same_contents(self, o):
        """z3: same labels(order), shape, column types and cells"""
        if self.columns != o.columns or self.shape != o.shape:
            return z3.BoolVal(False)
        eqs = [a == b for ca, cb in zip(self.cells, o.cells) for a, b in zip(ca, cb)]
        eqs += [a.tag == b.tag for a, b in zip(self.dtypes, o.dtypes)]
        return z3.And(eqs) if eqs else z3.BoolVal(True)

    def equals(self, o):
        return B(self.same_contents(o))

    def positional(self):
        return (self.shape, [list(c) for c in self.cells])


class _Stubs:
    """the C boundary: pd.util.hash_pandas_object + hashlib.sha256 as one label-blind injective function"""

    def __init__(self):
        self.seen = []

    def token(self, positional):
        shape, cells = positional
        flat = [x for c in cells for x in c]
        for (s2, f2, tok) in self.seen:
            if s2 == shape:
                if B(z3.And([a == b for a, b in zip(flat, f2)]) if flat else z3.BoolVal(True)):
                    return tok
        tok = "%064x" % (len(self.seen) + 1)
        self.seen.append((shape, flat, tok))
        return tok


def _install(ec, stubs, real):
    """swap the pandas/hashlib boundary of eval_cache; returns an undo function"""
    import data_algebra.data_model as dm

    saved = (ec.hashlib, dm.default_data_model)
    if real:
        return lambda: None

    class _H:
        def __init__(self, tok):
            self.tok = tok

        def hexdigest(self):
            return self.tok

    class _Hashlib:
        @staticmethod
        def sha256(values):
            return _H(stubs.token(values))

    class _Util:
        @staticmethod
        def hash_pandas_object(d):
            class R:
                values = d.positional()

            return R

    class _Pd:
        util = _Util

    class _Model:
        pd = _Pd

        def is_appropriate_data_instance(self, d):
            return isinstance(d, FakeFrame)

    ec.hashlib = _Hashlib
    dm.default_data_model = lambda: _Model()

    def undo():
        ec.hashlib, dm.default_data_model = saved

    return undo


_M = None


def _db_model(name):
    """a DBModel whose str() is the given (possibly symbolic) dialect name; only isinstance/str are used by eval_cache"""
    global _M
    if _M is None:
        import data_algebra.db_model

        class M(data_algebra.db_model.DBModel):
            def __str__(self):
                return self._verif_name

        _M = M
    m = object.__new__(_M)
    m._verif_name = name
    return m


class SymWorld:
    real = False

    def frame(self, tag, layout):
        cols, nrow = LAYOUTS[layout]
        dts = []
        cells = [[z3.Int(f"{tag}.{c}.{r}") for r in range(nrow)] for c in cols]
        for c, col in zip(cols, cells):
            if layout not in SYM_DTYPE_LAYOUTS:
                dts.append(SymDType(z3.IntVal(0)))
                continue
            t = z3.Int(f"{tag}.{c}.dtype")
            if forksym.ENG is not None:
                forksym.ENG.assume(z3.And(t >= 0, t <= 2))
                for x in col:
                    forksym.ENG.assume(z3.Implies(t == 2, z3.And(x >= 0, x <= 1)))  # a bool column holds the bit patterns 0 / 1 only
            dts.append(SymDType(t))
        return FakeFrame(cols, cells, dts)

    def text(self, tag):
        return Name(tag, z3.String(tag))

    def text_eq(self, a, b):
        return a.e == b.e

    def mutate(self, f, tag):
        f.cells = [[z3.Int(f"{tag}.mut.{i}.{r}") for r, _ in enumerate(c)] for i, c in enumerate(f.cells)]

    def same(self, f, g):
        return f.same_contents(g)

    def snapshot(self, f):
        return f.copy()


class RealWorld:
    """concrete replay on real pandas + real hashlib"""

    real = True

    def __init__(self, asg):
        self.asg = asg

    def frame(self, tag, layout):
        import pandas as pd

        cols, nrow = LAYOUTS[layout]
        import struct

        data = {}
        for c in cols:
            bits = [max(-2 ** 63, min(2 ** 63 - 1, int(self.asg.get(f"{tag}.{c}.{r}", 0)))) for r in range(nrow)]
            dt = int(self.asg.get(f"{tag}.{c}.dtype", 0))
            if dt == 1:  # the float64 with this bit pattern
                data[c] = pd.Series([struct.unpack("<d", struct.pack("<q", b))[0] for b in bits], dtype="float64")
            elif dt == 2:
                data[c] = pd.Series([bool(b) for b in bits], dtype="bool")
            else:
                data[c] = pd.Series(bits, dtype="int64")
        return pd.DataFrame(data, columns=cols)

    def text(self, tag):
        return str(self.asg.get(tag, ""))

    def text_eq(self, a, b):
        return z3.BoolVal(a == b)

    def mutate(self, f, tag):
        for c in list(f.columns):
            f[c] = f[c] + 1000003

    def same(self, f, g):
        return z3.BoolVal(list(f.columns) == list(g.columns) and f.shape == g.shape and bool(f.equals(g)))

    def snapshot(self, f):
        return f.copy()


def scenario(cfg, W):
    """cfg = (e1, e2, l) each = tuple of (table_name, layout) pairs ; result layouts fixed 'a1'.  Returns (z3 holds, info)."""
    import data_algebra.eval_cache as ec

    stubs = _Stubs()
    undo = _install(ec, stubs, W.real)
    try:
        ents = []
        for tag, spec in zip(("E1", "E2", "L"), cfg):
            dm = {t: W.frame(f"{tag}.{t}", lay) for t, lay in spec}
            ents.append({"tag": tag, "dialect": W.text(f"{tag}.dialect"), "sql": W.text(f"{tag}.sql"), "dm": dm, "spec": spec,
                         "res": W.frame(f"{tag}.res", "a1") if tag != "L" else None})
        E1, E2, L = ents

        def same_key(X, Y):
            if [t for t, _ in sorted(X["spec"])] != [t for t, _ in sorted(Y["spec"])]:
                return z3.BoolVal(False)
            c = [W.text_eq(X["dialect"], Y["dialect"]), W.text_eq(X["sql"], Y["sql"])]
            for t in X["dm"]:
                c.append(W.same(X["dm"][t], Y["dm"][t]))
            return z3.And(c)

        cache = ec.ResultCache()
        cache.data_cache = None  # "values saved for debugging" switched off (the code allows None); it is not part of the property
        holds = []
        orig = {}
        for E in (E1, E2):
            orig[E["tag"]] = W.snapshot(E["res"])
        cache.store(db_model=_db_model(E1["dialect"]), sql=E1["sql"], data_map=E1["dm"], res=E1["res"])
        holds.append(z3.BoolVal(cache.dirty is True))
        cache.dirty = False
        cache.store(db_model=_db_model(E2["dialect"]), sql=E2["sql"], data_map=E2["dm"], res=E2["res"])
        k12 = same_key(E1, E2)
        unchanged = z3.And(k12, W.same(orig["E1"], orig["E2"]))
        holds.append(z3.BoolVal(bool(cache.dirty)) == z3.Not(unchanged))
        if len(cfg) > 3 and cfg[3] == "reuse_e1_inputs_edited":
            # the caller edits the frames it stored E1 with IN PLACE (same objects, same shape and columns) and looks up with those very objects:
            # the key must follow the contents, not the identity of the frame objects
            kept = {t: W.snapshot(f) for t, f in E1["dm"].items()}
            for t, f in E1["dm"].items():
                W.mutate(f, f"E1.{t}.edit")
            L = dict(L, dm=E1["dm"], spec=E1["spec"])
            E1 = dict(E1, dm=kept)
        # caller goes on to change its own result objects and input frames: must not reach the cache
        W.mutate(E1["res"], "E1.res")
        W.mutate(E2["res"], "E2.res")
        info = {"hit": None}

        def lookup():
            try:
                return cache.get(db_model=_db_model(L["dialect"]), sql=L["sql"], data_map=L["dm"])
            except KeyError:
                return None

        got = lookup()
        k1, k2 = same_key(E1, L), same_key(E2, L)
        info["hit"] = got is not None
        if got is None:
            info["completeness_note"] = "miss"
            holds_f = z3.And(holds)
            return holds_f, info, z3.Or(k1, k2)
        holds.append(z3.Or(k1, k2))  # a hit only for a key equal to a stored one
        expect = lambda g: z3.If(k2, W.same(g, orig["E2"]), W.same(g, orig["E1"]))
        holds.append(expect(got))
        fresh = all(got is not v for v in cache.result_cache.values()) and got is not E1["res"] and got is not E2["res"]
        holds.append(z3.BoolVal(fresh))
        W.mutate(got, "got")
        got2 = lookup()
        holds.append(z3.BoolVal(got2 is not None))
        if got2 is not None:
            holds.append(expect(got2))
        return z3.And(holds), info, None
    finally:
        undo()


class H(Harness):
    def __init__(self, cfg, twin=False):
        self.cfg, self.twin = cfg, twin

    def run(self, eng):
        holds, info, miss_but_equal = scenario(self.cfg, SymWorld())
        if miss_but_equal is not None:
            info["miss_with_equal_key_possible"] = None  # decided lazily below (information only)
        if self.twin:
            return z3.BoolVal(not info["hit"]), info  # weakened oracle "never hits": must be refutable
        return holds, info

    def concretize(self, model, info):
        asg = {}
        for d in model.decls():
            v = model[d]
            if z3.is_int_value(v):
                asg[d.name()] = v.as_long()
            elif z3.is_string_value(v):
                asg[d.name()] = v.as_string()
        return {"cfg": [e if isinstance(e, str) else list(map(list, e)) for e in self.cfg], "assignment": asg, "symbolic_run": info}


def make(cfg, twin=False):
    return H(cfg, twin)


def replay_input(inp):
    cfg = tuple(e if isinstance(e, str) else tuple((t, l) for t, l in e) for e in inp["cfg"])
    try:
        holds, info, _ = scenario(cfg, RealWorld(inp["assignment"]))
    except Exception as e:
        return False, {"exception": repr(e)}
    return z3.is_true(z3.simplify(holds)), info


def concrete_samples():
    """sanity witnesses on the REAL hash_data_frame (evidence samples; not the claim): the frame pairs the property lists"""
    import pandas as pd
    import data_algebra.eval_cache as ec

    base = pd.DataFrame({"a": [1, 2, 3], "b": [10, 20, 30]})
    pairs = {
        "value": pd.DataFrame({"a": [1, 2, 4], "b": [10, 20, 30]}),
        "column_name": pd.DataFrame({"a": [1, 2, 3], "c": [10, 20, 30]}),
        "labels_permuted": pd.DataFrame({"b": [1, 2, 3], "a": [10, 20, 30]}),
        "shape": pd.DataFrame({"a": [1, 2], "b": [10, 20]}),
        "row_order": pd.DataFrame({"a": [3, 2, 1], "b": [30, 20, 10]}),
        "dtype": pd.DataFrame({"a": [1.0, 2.0, 3.0], "b": [10, 20, 30]}),
    }
    h0 = ec.hash_data_frame(base)
    return {k: ec.hash_data_frame(v) != h0 for k, v in pairs.items()}, ec.hash_data_frame(base.copy()) == h0


def configs(tier):
    one = [(("t", l),) for l in (("ab1", "ba1", "a1", "a2") if tier == "quick" else ("ab1", "ba1", "a1", "a2", "ab2", "e0"))]
    out = [(a, b, c) for a, b, c in itertools.product(one, repeat=3)]
    for pair in ADVERSARIAL:
        grp = [(("t", l),) for l in pair]
        out += [(a, b, c) for a, b, c in itertools.product(grp, repeat=3)]
    for l in (("t1", "t2") if tier == "quick" else ("t1", "t2", "tb1")):
        out.append(((("t", l),), (("t", l),), (("t", l),)))
    for l in ("a1", "a2", "ab1"):
        out.append(((("t", l),), (("t", l),), (("t", l),), "reuse_e1_inputs_edited"))
    out.append(((("t", "a1"), ("u", "a1")), (("t", "a1"), ("u", "a1")), (("t", "a1"), ("u", "a1")), "reuse_e1_inputs_edited"))
    two = [(("t", "a1"), ("u", "a1")), (("u", "a1"), ("t", "a1")), (("t", "a1"),), (("u", "a1"),), (("t", "ab1"), ("u", "ba1"))]
    out += [(a, b, c) for a, b, c in itertools.product(two, repeat=3)] if tier == "thorough" else \
           [(a, a, c) for a, c in itertools.product(two, repeat=2)] + [(a, c, c) for a, c in itertools.product(two, repeat=2)]
    return out


def _job(j):
    cfg, twin = j
    st, res = forksym.explore_harness("vf.checks.c25:make", (cfg, twin), nproc=1, max_paths=5000, query_timeout_ms=10000)
    return j, st, res


def run(tier):
    rep = Report("C25", "other")
    cfgs = configs(tier)
    twins = [(((("t", "a1"),), (("t", "a1"),), (("t", "a1"),)), True)]
    results = forksym.run_parallel([(c, False) for c in cfgs] + twins, _job, nproc=16, chunksize=4)
    total = forksym.Stats()
    samples = []
    seen = set()
    for (cfg, twin), st, res in results:
        if twin:
            if not any(r["status"] == "cex" for r in res):
                rep.harness_error("vacuity: 'never hits' twin not refuted")
            continue
        total.add(st)
        if len(samples) < 5 and st.paths >= 4:
            samples.append({"E1,E2,L data maps": cfg, "paths": st.paths, "discharged": st.discharged})
        for r in res:
            if r["status"] in ("cex", "error") and isinstance(r["input"], dict) and "cfg" in r["input"]:
                ok, info = replay_input(r["input"])
                sig = json.dumps(r["input"]["cfg"])
                if ok:
                    rep.harness_error(f"counterexample did not reproduce on real pandas/hashlib: {r['input']} ({r['status']} {r['why'][-300:]})")
                elif sig not in seen:
                    seen.add(sig)
                    rep.violation({"property": "C25", "input": r["input"], "real_run": info, "why": r["why"][-1200:]},
                                  f"store/store/get with data maps {r['input']['cfg']} values {r['input']['assignment']} -> {info}")
            elif r["status"] != "discharged":
                rep.harness_error(f"{cfg}: {r['status']} {r['why'][-400:]}")
    try:
        differs, stable = concrete_samples()
    except Exception as e:
        differs, stable = {"error": repr(e)}, None
    # recorded finding (known_findings.json): mixed-type OBJECT columns are stringified by pandas' row hash; replayed on the real function
    from vf.common import load_known_findings

    for e in load_known_findings("C25"):
        if e.get("id") == "cache_key_object_column_types":
            try:
                import pandas as pd
                import data_algebra.eval_cache as ec

                a = pd.DataFrame({"x": pd.Series([1, "a"], dtype=object)})
                b = pd.DataFrame({"x": pd.Series(["1", "a"], dtype=object)})
                if (not a.equals(b)) and ec.hash_data_frame(a) == ec.hash_data_frame(b):
                    rep.known_finding(f"{e['id']}: {e['what_fails']}")
            except Exception as ex:
                rep.harness_error(f"known finding replay crashed: {ex!r}")
    rep.coverage = {
        "explanation": "Real hash_data_frame/make_cache_key/EvalKey/ResultCache executed on symbolic dialect and SQL strings and symbolic frame cells; "
                       "per path z3 decides: hit => same (dialect, SQL, table names, column lists, shapes, contents); returned value == last stored "
                       "result under that key; copies on store and on get (caller-side and copy-side mutation invisible); dirty <=> cache changed.",
        "functions_encoded": ["eval_cache.hash_data_frame (key format)", "eval_cache.make_cache_key", "EvalKey ==/hash inside dict", "ResultCache.store", "ResultCache.get"],
        "bounds": {"history": "store, store, get, mutate, get", "frames": LAYOUTS, "tables_per_map": "1..2", "strings": "arbitrary (z3 String)", "cells": "arbitrary integers"},
        "configurations": len(cfgs),
        "obligations": total.paths, "discharged": total.discharged, "unknown": total.unknown, "truncated": total.truncated,
        "paths": total.paths, "branch_queries": total.branch_queries, "assert_queries": total.assert_queries, "solver_s": round(total.solver_s, 2),
        "samples": samples + [{"real_hash_data_frame_separates": differs, "stable_on_copy": stable}],
        "evaluations": total.paths, "distinct_nontrivial": total.paths,
        "rule": "one evaluation = one feasible path (data-map layout triple x equality pattern of strings and contents)",
        "exhaustive": not total.truncated,
        "not_decided": "content-sensitivity and collision-freedom of pandas.util.hash_pandas_object + SHA-256 (modelled as injective, label-blind); "
                       "dtype differences; completeness (equal key always hits) is not asserted",
    }
    if isinstance(differs, dict) and not all(v is True for v in differs.values()):
        rep.coverage["note_real_hash_samples"] = "a listed frame pair did not get distinct keys on the real function (sample, not a verdict)"
    rep.assumptions = ["hash_pandas_object+sha256 = injective function of positional cell contents, blind to labels (C boundary stub)",
                       "default_data_model() stubbed to accept the frame stand-ins; frames are integer-valued with default index",
                       "table names and column lists enumerated, not symbolic"]
    return rep.finish()


def replay(path):
    d = json.load(open(path))
    ok, info = replay_input(d["input"])
    print(d["input"], info, "holds" if ok else "FAILS")
    if not ok:
        print(f"VIOLATION property=C25 replay={path}")
        return 1
    return 0
