"""C03 Polars executor agrees with Pandas whenever it returns a result.

The repository's PolarsModel (private copy of polars_model.py, current source; eager and lazy) runs over a symbolic polars stand-in and
the Pandas executor over the pandas model, on the same symbolic tables.  On every structural path on which the Polars run does not
raise, z3 decides that both return the same table (C01 comparison rules) for all cell values.  Paths on which Polars raises are counted,
never failures (an unsupported step may raise; it must not silently differ).  Which attributes exist is delegated to the installed
polars, so calls polars 1.44 rejects raise in the model exactly as in the engine.  Counterexamples are replayed on real pandas + real
polars."""
from vf.checks import c01
from vf.sym import progs, simple

PROP = "C03"


def build_jobs(tier, seed, kf_on):
    jobs = []
    ps = c01.programs(tier, seed)
    # n-ary forms the Polars executor reduces itself (impl_map_arbitrary_arity) and expression shapes with their own Polars mapping
    extra = {
        "sum3": ".extend({'t': 'x + y + g'})", "sum4": ".extend({'t': 'x + y + g + 1'})", "prod3": ".extend({'t': 'x * y * 2'})",
        "and3": ".select_rows('(x > 0) and (y > 0) and (g > 0)')", "or3": ".select_rows('(x > 0) or (y > 0) or (g > 0)')",
        "and_or_value": ".extend({'b': '(x > 0) and (y > 0)', 'c': '(x > 0) or (y > 0)'})",
        "coalesce_chain": ".extend({'c': '(x %?% y) %?% 0'})", "fmax_const": ".extend({'m': 'x.fmax(0)', 'n': 'x.fmin(y)'})", "max_const": ".extend({'m': 'x.maximum(0)', 'n': 'x.minimum(y)'})",
        "not": ".extend({'b': 'not (x > 0)'})", "neg_abs": ".extend({'a': '(-x).abs()', 's': 'x.sign()'})", "ifelse_const": ".extend({'w': '(x > 0).if_else(1.0, 0.0)'})",
        "count_null": ".project({'c': 'x.count()', 'n': '_size()', 'mx': 'y.max()'}, group_by=['g'])", "mean_min": ".project({'a': 'x.mean()', 'mn': 'y.min()'}, group_by=['g'])",
        "win_count": ".extend({'c': 'x.count()', 'mx': 'x.max()'}, partition_by=['g'])",
    }
    for k, suf in extra.items():
        src = progs.D + suf
        if progs.try_build(src) is not None:
            ps.append((f"expr_{k}", src, ["d"]))
    for idx, (label, src, tables) in enumerate(ps):
        depth = label.count("+") + 1
        schema = {t: progs.SCHEMA[t] for t in tables}
        if tier == "quick":
            if depth == 2 and not progs.quick_keep(label, 2):
                continue  # about every second 2-step program, chosen by content (see progs.quick_keep)
            vecs = [{t: (2 if i < 2 else 1) for i, t in enumerate(tables)}]
            if depth == 1:
                vecs += [{t: 0 for t in tables}, {t: 1 for t in tables}]
                if len(tables) > 1:
                    vecs += [{t: (0 if i == 0 else 1) for i, t in enumerate(tables)}, {t: (1 if i == 0 else 0) for i, t in enumerate(tables)}]
        else:
            vecs = [{t: (2 if i < 2 else 1) for i, t in enumerate(tables)}, {t: 0 for t in tables}, {t: 1 for t in tables}, {t: (3 if i == 0 else 1) for i, t in enumerate(tables)}]
        for rows in vecs:
            rid = ",".join(f"{t}={n}" for t, n in rows.items())
            lazies = [False, True] if (tier != "quick" or depth == 1 or progs.quick_keep(label + "#both", 4)) else [progs.quick_keep(label + "#lazy", 3)]
            for lazy in lazies:
                jobs.append(simple.tv_job(f"{label}@{rid} {'lazy' if lazy else 'eager'}", schema, rows, {"kind": "pandas", "src": src}, {"kind": "polars", "src": src, "lazy": lazy},
                                          kf_on, tier, b_may_raise=True, max_paths=1200 if tier == "quick" else 6000, wall_s=60 if tier == "quick" else 200))
    return jobs


def post(rep, jobs, results):
    rep.coverage["paths_on_which_polars_raised_or_both_raised"] = sum(r.get("both_raise", 0) for r in results)


def run(tier):
    return simple.run_tv_check(
        PROP, tier, build_jobs,
        "Real PolarsModel (eager and lazy) over the symbolic polars stand-in vs real Pandas executor over the pandas model on the same symbolic tables; on every "
        "structural path where Polars returns, z3 decides table equality for all cell values; raising paths are allowed.",
        {"functions_encoded": ["polars_model.PolarsModel._*_step, PolarsExpressionActor, _populate_expr_impl_map, impl_map_arbitrary_arity (private copy over sympl)",
                               "pandas_base executor"],
         "bounds": {"programs": "as C01 (quick: single steps at 5 row vectors, every second 2-step program, curated triples)", "rows": "0..2 per table (3 thorough)",
                    "modes": "eager and lazy"}},
        ["the polars stand-in (vf/sym/plshim.py) is a model validated on the run's witnesses against real polars 1.44; attribute existence is taken from the installed polars",
         "NaN is not distinguished from null (pandas -> polars conversion maps NaN to null)", "other assumptions as C01"], post=post, min_conclusive=0.3)


def replay(path):
    return simple.replay_tv(PROP, path)
