"""C11 Pipelines that compare equal behave identically.

Near-miss pairs (p, p'): p' differs from p in exactly one argument of one step (expression constants and shape, window options, group
keys, join type / keys / key check, order columns / reversal / limit, concat labels, rename maps, column lists, record maps with
different layouts).  The real == is evaluated (plus reflexivity p == copy(p) and symmetry).  Whenever p == p' holds for textually
different pipelines, (i) to_sql must give identical text in every dialect and (ii) both pipelines run through the real Pandas executor
over the pandas model on the same symbolic tables and z3 decides they return the same table for all cell values."""
import copy
import itertools
import json
import warnings

from vf.common import Report
from vf.sym import progs, runner, simple, tv

PROP = "C11"
D, E, F, K = progs.D, progs.E, progs.F, progs.K

CT1 = "pd.DataFrame({'k': ['a', 'b'], 'v': ['x', 'y']})"
CT2 = "pd.DataFrame({'k': ['a', 'b'], 'v': ['y', 'x']})"
CT3 = "pd.DataFrame({'k': ['p', 'q'], 'v': ['x', 'y']})"
CT4 = "pd.DataFrame({'k': ['a', 'b'], 'w': ['x', 'y']})"


def _rm(ct, direction, keys="['g']"):
    spec = f"RecordSpecification({ct}, record_keys={keys}, control_table_keys=['k'])"
    return f"RecordMap(blocks_out={spec})" if direction == "out" else f"RecordMap(blocks_in={spec})"


GROUPS = {
    "extend_expr": [f".extend({{'w': {e!r}}})" for e in ["x + 1", "x + 2", "1 + x", "x + y", "y + x", "x - y", "x * 1", "x + 1.0", "(x + 1)", "x.maximum(y)", "x.fmax(y)", "x.minimum(y)",
                                                          "-x", "x * -1", "x ** 2", "x * x", "(x > 1).if_else(x, y)", "(x > 1).where(x, y)", "x.is_null()", "x.is_bad()", "x %?% y", "y %?% x"]],
    "extend_names": [".extend({'w': 'x + 1'})", ".extend({'v': 'x + 1'})", ".extend({'w': 'x + 1', 'v': 'y'})", ".extend({'v': 'y', 'w': 'x + 1'})",
                     ".extend({'w': 'x + 1', 'y': 'x * 100'})", ".extend({'y': 'x * 100'})", ".extend({'w': 'x + 1', 'y': 'x * 100', 'g': 'g + 1'})", ".extend({'w': 'x + 1', 'y': 'y'})"],
    "project_names": [".project({'s': 'x.sum()'}, group_by=['g'])", ".project({'s': 'x.sum()', 'y': 'y.max()'}, group_by=['g'])", ".project({'y': 'y.max()', 's': 'x.sum()'}, group_by=['g'])",
                      ".project({'s': 'x.sum()', 'x': 'x.max()'}, group_by=['g'])"],
    "join_pairs": [f".natural_join(b=TableDescription(table_name='q', column_names=['j1', 'j2', 'z']), on={on}, jointype='inner')"
                   for on in ("[('x', 'j1'), ('y', 'j2')]", "[('x', 'j2'), ('y', 'j1')]", "[('y', 'j2'), ('x', 'j1')]", "[('x', 'j1')]")],
    "window": [f".extend({{'c': 'x.cumsum()'}}, partition_by={p}, order_by={o}, reverse={r})" for p in ("['g']", "[]", "['g', 'y']")
               for (o, r) in (("['y']", "[]"), ("['y']", "['y']"), ("['x']", "[]"), ("['y', 'x']", "[]"), ("['x', 'y']", "[]"), ("['y', 'x']", "['x']"))
               if not (p == "['g', 'y']" and "'y'" in o)],
    "window_fn": [f".extend({{'c': {e!r}}}, partition_by=['g'], order_by=['y'])" for e in ["x.cumsum()", "x.cummax()", "x.cummin()", "x.shift()", "x.shift(1)", "x.shift(2)", "x.shift(-1)", "_row_number()"]],
    "project": [f".project({{'s': {e!r}}}, group_by={g})" for e in ("x.sum()", "x.max()", "y.sum()", "x.mean()") for g in ("['g']", "['g', 'y']", "[]", "['y']")
                if not (g in ("['g', 'y']", "['y']") and e == "y.sum()")],
    "select_rows": [f".select_rows({e!r})" for e in ["x > 1", "x > 2", "x >= 1", "1 < x", "(x > 1) and (y > 1)", "(y > 1) and (x > 1)", "(x > 1) or (y > 1)", "x.is_null()", "not (x > 1)"]],
    "order": [f".order_rows({c}, reverse={r}, limit={l})" for c in ("['x']", "['y']", "['x', 'y']", "['y', 'x']") for r in ("[]", "['x']") for l in ("None", "1", "2")
              if not (r == "['x']" and c == "['y']")],
    "join": [f".natural_join(b={b}, on={on}, jointype={jt!r}, check_all_common_keys_in_equi_spec={chk})" for (b, on) in ((E, "['g']"), (K, "[('g', 'k')]"))
             for jt in ("inner", "left", "right", "full") for chk in ("False", "True")],
    "join_shared": [f".natural_join(b={F}, on={on}, jointype={jt!r})" for on in ("['g']", "['g', 'x']", "['x', 'g']", "['g', 'y']") for jt in ("inner", "left")],
    "concat": [f".concat_rows(b={F}, id_column={i}, a_name={a!r}, b_name={b!r})" for i in ("'src'", "'origin'", "None") for (a, b) in (("a", "b"), ("b", "a"), ("a", "c"))],
    "columns": [".select_columns(['g', 'x'])", ".select_columns(['x', 'g'])", ".select_columns(['g', 'y'])", ".drop_columns(['y'])", ".drop_columns(['x'])", ".select_columns(['g', 'x', 'y'])"],
    "rename": [".rename_columns({'a': 'x'})", ".rename_columns({'a': 'y'})", ".rename_columns({'b': 'x'})", ".map_columns({'x': 'a'})", ".map_columns({'y': 'a'})",
               ".rename_columns({'a': 'x', 'b': 'y'})", ".rename_columns({'a': 'y', 'b': 'x'})", ".rename_columns({'x': 'y', 'y': 'x'})"],
    "records_out": [f".select_columns(['g', 'x', 'y']).convert_records({_rm(ct, 'out')})" for ct in (CT1, CT2, CT3, CT4)],
    "records_in": [f".convert_records({_rm(ct, 'in')})" for ct in (CT1, CT2, CT3)],
}
BASES = {"records_in": "TableDescription(table_name='blk', column_names=['g', 'k', 'v'])", "records_out": D}
PREFIXES = ["", ".extend({'x': 'x + y'})", ".select_rows('y > 0')"]
DIALECTS = ["sqlite", "postgresql", "mysql", "bigquery", "spark"]


def _sql_models():
    from data_algebra.SQLite import SQLiteModel
    from data_algebra.PostgreSQL import PostgreSQLModel
    from data_algebra.MySQL import MySQLModel
    from data_algebra.BigQuery import BigQueryModel
    from data_algebra.SparkSQL import SparkSQLModel

    return {"sqlite": SQLiteModel(), "postgresql": PostgreSQLModel(), "mysql": MySQLModel(), "bigquery": BigQueryModel(), "spark": SparkSQLModel()}


def _sql(models, ops):
    from data_algebra.sql_format_options import SQLFormatOptions

    out = {}
    for k, m in models.items():
        try:
            with warnings.catch_warnings():
                warnings.simplefilter("ignore")
                out[k] = m.to_sql(ops, sql_format_options=SQLFormatOptions(warn_on_method_support=False, warn_on_novel_methods=False))
        except Exception as e:
            out[k] = f"raises {type(e).__name__}"
    return out


def build(tier, seed, kf_on):
    models = _sql_models()
    jobs, structural = [], []
    n_pairs = n_equal = n_pipes = 0
    for gname, variants in GROUPS.items():
        base = BASES.get(gname, D)
        for pre in (PREFIXES if gname not in ("records_in", "records_out") else [""]):
            built = []
            for v in variants:
                src = base + pre + v
                ops = progs.try_build(src)
                if ops is not None:
                    built.append((src, ops))
            n_pipes += len(built)
            for src, ops in built:  # reflexivity on an independent copy
                try:
                    c = copy.deepcopy(ops)
                    if not (ops == c and c == ops and ops == ops):
                        structural.append({"kind": "not_reflexive", "src": src})
                except Exception as e:
                    structural.append({"kind": "eq_raises", "src": src, "error": str(e)[:200]})
            for (s1, o1), (s2, o2) in itertools.combinations(built, 2):
                n_pairs += 1
                try:
                    e12, e21 = bool(o1 == o2), bool(o2 == o1)
                except Exception as e:
                    structural.append({"kind": "eq_raises", "src": s1, "src2": s2, "error": str(e)[:200]})
                    continue
                if e12 != e21:
                    structural.append({"kind": "not_symmetric", "src": s1, "src2": s2, "a_eq_b": e12, "b_eq_a": e21})
                if not (e12 or e21):
                    continue
                n_equal += 1
                q1, q2 = _sql(models, o1), _sql(models, o2)
                diff = [k for k in q1 if q1[k] != q2[k]]
                if diff:
                    structural.append({"kind": "equal_pipelines_different_sql", "src": s1, "src2": s2, "dialects": diff})
                tables = sorted(set(progs.tables_of(o1)) | set(progs.tables_of(o2)))
                if all(t in progs.SCHEMA for t in tables):
                    schema = {t: progs.SCHEMA[t] for t in tables}
                    rows = {t: 2 for t in tables}
                    jobs.append(simple.tv_job(f"{gname}: {s1[len(base):]} == {s2[len(base):]}", schema, rows, {"kind": "pandas", "src": s1}, {"kind": "pandas", "src": s2},
                                              kf_on, tier, max_paths=600 if tier == "quick" else 5000, wall_s=60))
    return jobs, structural, n_pairs, n_equal, n_pipes


def run(tier):
    rep = Report(PROP, "translation_validation")
    kf_on, entries = runner.kf_taints(PROP)
    jobs, structural, n_pairs, n_equal, n_pipes = build(tier, rep.seed, sorted(kf_on))
    results = runner.run_jobs(jobs)
    cov = runner.fold(rep, PROP, jobs, results,
                      "Near-miss pipeline pairs differing in one argument of one step: the real == is evaluated; for every pair that compares equal the SQL text "
                      "in 5 dialects must be identical and the two pipelines are executed by the real Pandas executor over the pandas model on the same symbolic "
                      "tables (z3 per-path equality). Reflexivity (deep copy) and symmetry are checked on every pipeline / pair.",
                      {"functions_encoded": ["view_representations.ViewRepresentation.__eq__ / *._equiv_nodes", "cdata.RecordMap.__eq__ / RecordSpecification.__eq__",
                                             "expr_rep.*.is_equal", "pandas_base executor", "to_sql of SQLite/PostgreSQL/MySQL/BigQuery/SparkSQL models"],
                       "bounds": {"groups": {k: len(v) for k, v in GROUPS.items()}, "prefixes": PREFIXES, "rows": 2},
                       "pipelines": n_pipes, "pairs_compared_with_eq": n_pairs, "pairs_that_compare_equal": n_equal, "structural_obligations_failed": len(structural)})
    if not jobs:
        cov["programs"] = max(cov.get("programs", 0), 1)
        cov["note"] = "no textually different pair compared equal: nothing to decide semantically in this run"
    seen = set()
    for s in structural:
        key = (s["kind"], s.get("src"), s.get("src2"))
        if key in seen:
            continue
        seen.add(key)
        rep.violation({"property": PROP, **s}, f"{s['kind']}: {json.dumps({k: v for k, v in s.items() if k != 'kind'})[:500]}")
    rep.coverage["programs"] = max(rep.coverage.get("programs", 0), n_pipes)
    rep.assumptions = ["pandas model as in C01; convert_records pairs are decided on SQL text only when the record-transform model does not cover them",
                       "'every dialect' = the five SQL models shipped (SQLite, PostgreSQL, MySQL, BigQuery, SparkSQL): text equality"]
    runner.replay_known(rep, PROP, entries)
    return rep.finish()


def replay(path):
    d = json.load(open(path))
    k = d.get("kind")
    if k:
        o1 = tv.build_ops(d["src"])
        bad = False
        if k == "not_reflexive":
            bad = not (o1 == copy.deepcopy(o1))
        elif "src2" in d:
            o2 = tv.build_ops(d["src2"])
            e12, e21 = bool(o1 == o2), bool(o2 == o1)
            if k == "not_symmetric":
                bad = e12 != e21
            elif k == "equal_pipelines_different_sql":
                m = _sql_models()
                bad = (e12 or e21) and _sql(m, o1) != _sql(m, o2)
        print("replay", k, "->", bad)
        if bad:
            print(f"VIOLATION property={PROP} replay={path}")
            return 1
        return 0
    return simple.replay_tv(PROP, path)
