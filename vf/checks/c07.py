"""C07 Pipeline composition equals sequential application and is associative.

a over table d, b over a table 'b_in' whose columns are a's output columns (all pairs of step kinds), c over 'c_in' likewise.
Composites are built by the real code in three ways -- a >> b (ShiftPipeAction dispatch -> act_on -> replace_leaves), DataOpArrow(a) >>
DataOpArrow(b), b.eval({'b_in': a}) -- and must (i) build whenever both operands are valid, (ii) compare equal to each other with ==,
(iii) over symbolic input evaluate (real Pandas executor over the pandas model) to the same table as running b on the materialised
result of a (z3 decides per structural path), (iv) be associative ((a>>b)>>c == a>>(b>>c) by == and by meaning), (v) have dom/cod equal
to the composite's input / output columns."""
import itertools
import json
import warnings

from vf.common import Report
from vf.sym import progs, runner, simple, tv

PROP = "C07"
D = progs.D

NAMES = [n for n, _, k in progs.STEPS if n not in ("cat", "cat_id", "join_cross", "join_shared")]
# composition-specific shapes: a limit of 0, windows whose multi-column orders are permutations of each other, windows with equal specs (merge on re-build)
EXTRA = {
    "ord_lim0": ".order_rows(['x'], limit=0)",
    "ord_lim1_rev": ".order_rows(['y'], reverse=['y'], limit=1)",
    "win_rn_xy": ".extend({'r1': '_row_number()'}, partition_by=['g'], order_by=['x', 'y'])",
    "win_rn_yx": ".extend({'r2': '_row_number()'}, partition_by=['g'], order_by=['y', 'x'])",
    "win_rn_xy_rev": ".extend({'r3': '_row_number()'}, partition_by=['g'], order_by=['x', 'y'], reverse=['y'])",
    "win_cs_xy": ".extend({'c1': 'x.cumsum()'}, partition_by=['g'], order_by=['x', 'y'])",
    "win_sum_g": ".extend({'t1': 'y.sum()'}, partition_by=['g'])",
    "win_sum_all": ".extend({'t0': 'y.sum()'}, partition_by=1)",  # whole-table window next to a partitioned one: must not be fused at composition
    "win_cs_all_xy": ".extend({'c0': 'y.cumsum()'}, partition_by=1, order_by=['x', 'y'])",
    "win_sum_gy": ".extend({'t2': 'x.sum()'}, partition_by=['g', 'y'])",
}
for _k, _v in EXTRA.items():
    progs.STEP.setdefault(_k, (_v, "extra"))
NAMES = NAMES + list(EXTRA)


def _b_base(cols, name="b_in"):
    return f"TableDescription(table_name='{name}', column_names={list(cols)!r})"


def _compose_forms(a_src, b_src, b_ops=None):
    others = [t for t in (progs.tables_of(b_ops) if b_ops is not None else []) if t != "b_in"]
    forms = {
        "arrow": f"(data_algebra.arrow.DataOpArrow({a_src}, free_table_key='d') >> data_algebra.arrow.DataOpArrow({b_src}, free_table_key='b_in')).pipeline",
        "replace_leaves": f"({b_src}).replace_leaves({{'b_in': ({a_src})}})",
    }
    if not others:
        # a >> b and eval({name: pipeline}) address b's only table; with further input tables the caller must name every table
        forms["rshift"] = f"({a_src}) >> ({b_src})"
        forms["eval_map"] = f"({b_src}).eval({{'b_in': ({a_src})}})"
    else:
        descr = {"e": progs.E, "f": progs.F, "k": progs.K, "s": progs.S}
        mp = ", ".join([f"'b_in': ({a_src})"] + [f"'{t}': {descr[t]}" for t in others if t in descr])
        forms["eval_map"] = f"({b_src}).eval({{{mp}}})"
        tabs = b_ops.get_tables()
        if sum(1 for t in tabs.values() if set(t.column_names) == set(tabs["b_in"].column_names)) == 1:
            # several tables in b, but only one of them has a's columns: a >> b says which table a feeds
            forms["rshift"] = f"({a_src}) >> ({b_src})"
    return forms


def pairs(tier, seed):
    out = []
    names_a = NAMES
    names_b = NAMES
    for na in names_a:
        a_src = progs.make([na])
        a_ops = progs.try_build(a_src)
        if a_ops is None:
            continue
        cols = list(a_ops.column_names)
        for nb in names_b:
            b_src = _b_base(cols) + progs.STEP[nb][0]
            b_ops = progs.try_build(b_src)
            if b_ops is None:
                continue
            out.append((na, nb, a_src, b_src, a_ops, b_ops))
    return out


def build(tier, seed, kf_on):
    jobs, structural, n_pairs = [], [], 0
    n = 2 if tier == "quick" else 3
    for na, nb, a_src, b_src, a_ops, b_ops in pairs(tier, seed):
        n_pairs += 1
        forms = _compose_forms(a_src, b_src, b_ops)
        built = {}
        for k, src in forms.items():
            try:
                with warnings.catch_warnings():
                    warnings.simplefilter("ignore")
                    built[k] = tv.build_ops(src)
            except Exception as e:
                structural.append({"kind": "composition_raises", "form": k, "a": a_src, "b": b_src, "error": f"{type(e).__name__}: {str(e)[:200]}"})
        ks = list(built)
        for i in range(len(ks)):
            for j2 in range(i + 1, len(ks)):
                try:
                    if not (built[ks[i]] == built[ks[j2]]):
                        structural.append({"kind": "forms_differ", "forms": [ks[i], ks[j2]], "a": a_src, "b": b_src})
                except Exception as e:
                    structural.append({"kind": "eq_raises", "forms": [ks[i], ks[j2]], "a": a_src, "b": b_src, "error": str(e)[:200]})
        main = "rshift" if "rshift" in forms else "replace_leaves"
        if main in built:
            comp = built[main]
            try:
                arr = tv.build_ops(f"data_algebra.arrow.DataOpArrow({a_src}, free_table_key='d') >> data_algebra.arrow.DataOpArrow({b_src}, free_table_key='b_in')")
                dom = sorted(arr.dom().pipeline.column_names)
                cod = sorted(arr.cod().pipeline.column_names)
                if dom != sorted(a_ops.get_tables()[arr.free_table_key].column_names) or cod != sorted(comp.column_names):
                    structural.append({"kind": "dom_cod", "a": a_src, "b": b_src, "dom": dom, "cod": cod, "expected_cod": sorted(comp.column_names)})
            except Exception:
                pass
            tables = sorted(set(progs.tables_of(comp)))
            if not all(t in progs.SCHEMA for t in tables):
                continue
            schema = {t: progs.SCHEMA[t] for t in tables}
            rows = {t: (n if i < 2 else 1) for i, t in enumerate(tables)}
            jobs.append(simple.tv_job(f"{na}>>{nb}", schema, rows, {"kind": "pandas", "src": forms[main]},
                                      {"kind": "pandas_seq", "stages": [(a_src, None), (b_src, "b_in")]}, kf_on, tier,
                                      max_paths=800 if tier == "quick" else 6000, wall_s=30 if tier == "quick" else 200))
    # associativity on triples (a, b, c) of single-input steps
    tri_names = ["ext_add", "ext_over", "win_sum", "prj_sum", "sel_gt", "cols_drop", "cols_ren", "ord_lim", "ord_x", "win_cumsum"]
    triples = list(itertools.product(tri_names, repeat=3))
    if tier == "quick":
        triples = triples[::7]
    n_tri = 0
    for na, nb, nc in triples:
        a_src = progs.make([na])
        a_ops = progs.try_build(a_src)
        if a_ops is None:
            continue
        b_src = _b_base(a_ops.column_names) + progs.STEP[nb][0]
        b_ops = progs.try_build(b_src)
        if b_ops is None:
            continue
        c_src = _b_base(b_ops.column_names, "c_in") + progs.STEP[nc][0]
        c_ops = progs.try_build(c_src)
        if c_ops is None:
            continue
        n_tri += 1
        l_src = f"(({a_src}) >> ({b_src})) >> ({c_src})"
        r_src = f"({a_src}) >> (({b_src}) >> ({c_src}))"
        try:
            with warnings.catch_warnings():
                warnings.simplefilter("ignore")
                lo, ro = tv.build_ops(l_src), tv.build_ops(r_src)
            if not (lo == ro):
                structural.append({"kind": "not_associative_by_eq", "a": a_src, "b": b_src, "c": c_src})
        except Exception as e:
            structural.append({"kind": "composition_raises", "form": "triple", "a": a_src, "b": b_src, "c": c_src, "error": f"{type(e).__name__}: {str(e)[:200]}"})
            continue
        schema = {"d": progs.SCHEMA["d"]}
        jobs.append(simple.tv_job(f"assoc {na}>>{nb}>>{nc}", schema, {"d": n}, {"kind": "pandas", "src": l_src}, {"kind": "pandas", "src": r_src}, kf_on, tier,
                                  max_paths=600 if tier == "quick" else 5000, wall_s=30))
        jobs.append(simple.tv_job(f"seq {na}>>{nb}>>{nc}", schema, {"d": n}, {"kind": "pandas", "src": l_src},
                                  {"kind": "pandas_seq", "stages": [(a_src, None), (b_src, "b_in"), (c_src, "c_in")]}, kf_on, tier,
                                  max_paths=600 if tier == "quick" else 5000, wall_s=30))
    return jobs, structural, n_pairs, n_tri


def run(tier):
    rep = Report(PROP, "translation_validation")
    kf_on, entries = runner.kf_taints(PROP)
    jobs, structural, n_pairs, n_tri = build(tier, rep.seed, sorted(kf_on))
    results = runner.run_jobs(jobs)
    runner.fold(rep, PROP, jobs, results,
                "Composite pipelines built by the real composition code (a >> b, DataOpArrow composition, eval with a map of pipelines; replace_leaves "
                "re-runs the builders) versus sequential application of the operands on materialised results, over symbolic input through the real Pandas "
                "executor on the pandas model; z3 decides equality per structural path. Structural obligations (composition must not raise, the three "
                "forms are ==, associativity by ==, dom/cod) are decided by construction.",
                {"functions_encoded": ["view_representations.ViewRepresentation.act_on / *.replace_leaves (all node kinds)", "arrow.DataOpArrow.act_on / dom / cod",
                                       "shift_pipe_action.ShiftPipeAction.__rshift__/__rrshift__", "ViewRepresentation.eval with a map of pipelines"],
                 "bounds": {"pairs": n_pairs, "triples": n_tri, "rows": "2 per table quick / 3 thorough"},
                 "structural_obligations_failed": len(structural)})
    seen = set()
    for s in structural:
        key = (s["kind"], s.get("form"), s.get("error", "")[:60]) if s["kind"] == "composition_raises" else (s["kind"], s.get("a"), s.get("b"), s.get("c"))
        if key in seen and s["kind"] == "composition_raises":
            continue
        seen.add(key)
        rep.violation({"property": PROP, **s}, f"{s['kind']}: {json.dumps({k: v for k, v in s.items() if k != 'kind'})[:400]}")
    rep.assumptions = ["pandas model as in C01 (both sides); counterexamples replayed on real pandas",
                       "b's input table is named 'b_in' with exactly a's output columns (boundary columns match by construction)"]
    runner.replay_known(rep, PROP, entries)
    return rep.finish()


def replay(path):
    d = json.load(open(path))
    k = d.get("kind")
    if k in ("composition_raises", "forms_differ", "eq_raises", "dom_cod", "not_associative_by_eq"):
        try:
            with warnings.catch_warnings():
                warnings.simplefilter("ignore")
                if "c" in d:
                    lo = tv.build_ops(f"(({d['a']}) >> ({d['b']})) >> ({d['c']})")
                    ro = tv.build_ops(f"({d['a']}) >> (({d['b']}) >> ({d['c']}))")
                    bad = not (lo == ro)
                else:
                    forms = _compose_forms(d["a"], d["b"])
                    built = [tv.build_ops(s) for s in forms.values()]
                    bad = not all(built[0] == x for x in built[1:])
        except Exception as e:
            print("composition raises:", e)
            bad = True
        print("replay", k, "->", bad)
        if bad:
            print(f"VIOLATION property={PROP} replay={path}")
            return 1
        return 0
    return simple.replay_tv(PROP, path)
