"""C08 Results have exactly the columns the pipeline declares.

For every program of the bounded grammar and every structural path (empty-input branches build their frames differently) the column
list returned by the real Pandas executor (over the pandas model) and by the emitted SQL (SQLite and PostgreSQL dialects, interpreted)
is compared with ops.column_names: set equality always, order after select_columns.  The solver's role is path feasibility; the
assertion is structural.  Violations are replayed on real pandas / sqlite3."""
from vf.sym import progs, simple, tv

PROP = "C08"

EXTRA = [  # steps replacing/dropping every non-key column, temp-column users, empty projections
    ("replace_all", ".extend({'x': '1', 'y': '2'}).project({'x': 'x.sum()', 'y': 'y.max()'}, group_by=['g'])"),
    ("drop_to_key", ".drop_columns(['x', 'y'])"),
    ("select_reorder", ".select_columns(['y', 'g', 'x'])"),
    ("select_after_join", f".natural_join(b={progs.E}, on=['g'], jointype='left').select_columns(['z', 'g'])"),
    ("select_after_project", ".project({'s': 'x.sum()', 'm': 'y.max()'}, group_by=['g']).select_columns(['m', 'g', 's'])"),
    ("select_after_window", ".extend({'r': '_row_number()'}, partition_by=['g'], order_by=['x']).select_columns(['r', 'x'])"),
    ("const_window", ".extend({'c': '(1).sum()'}, partition_by=['g'])"),
    ("const_project", ".project({'c': '(1).sum()', 'm': 'x.max()'}, group_by=['g'])"),
    ("concat_then_select", f".concat_rows(b={progs.F}, id_column='src').select_columns(['src', 'x'])"),
    ("map_then_select", ".map_columns({'x': 'a', 'y': 'b'}).select_columns(['b', 'a'])"),
    ("rename_swap", ".rename_columns({'x': 'y', 'y': 'x'}).select_columns(['y', 'x', 'g'])"),
    ("project_no_out_then_ext", ".project({}, group_by=['g', 'x']).extend({'y': 'g + x'})"),
]


def programs(tier, seed):
    ps = progs.enumerate_programs(1) + progs.enumerate_programs(2)
    for label, suf in EXTRA:
        src = progs.D + suf
        ops = progs.try_build(src)
        if ops is not None:
            ps.append((label, src, progs.tables_of(ops)))
    if tier == "thorough":
        ps += progs.random_programs(seed, 300, 3, 4)
    return ps


def build_jobs(tier, seed, kf_on):
    jobs = []
    for label, src, tables in programs(tier, seed):
        ops = progs.try_build(src)
        declared = list(ops.column_names)
        ordered = ops.node_name == "SelectColumnsNode"
        schema = {t: progs.SCHEMA[t] for t in tables}
        vecs = [{t: 0 for t in tables}, {t: (2 if i < 2 else 1) for i, t in enumerate(tables)}]
        if len(tables) > 1 and (tier != "quick" or "+" not in label):
            vecs.append({t: (0 if i == 0 else 1) for i, t in enumerate(tables)})
            vecs.append({t: (1 if i == 0 else 0) for i, t in enumerate(tables)})
        if tier == "thorough":
            vecs.append({t: 1 for t in tables})
        for rows in vecs:
            rid = ",".join(f"{t}={n}" for t, n in rows.items())
            jobs.append(simple.tv_job(f"{label}:pandas|sqlite@{rid}", schema, rows, {"kind": "pandas", "src": src}, {"kind": "sql", "src": src, "dialect": "sqlite"},
                                      kf_on, tier, compare="cols", check_cols={"cols": declared, "ordered": ordered}, max_paths=40 if tier == "quick" else 1500, wall_s=20,
                                      validate=(1 if rows == vecs[0] or tier != "quick" else 0)))
        rows = {t: 1 for t in tables}
        if tier == "quick" and "+" in label and hash(label) % 4:
            continue  # quick tier: PostgreSQL text of a quarter of the 2-step programs (all of them in the thorough tier)
        jobs.append(simple.tv_job(f"{label}:postgresql-model@1", schema, rows, {"kind": "sql", "src": src, "dialect": "postgresql"},
                                  {"kind": "sql", "src": src, "dialect": "postgresql", "options": {"use_with": False}}, kf_on, tier, compare="cols",
                                  check_cols={"cols": declared, "ordered": ordered}, validate=0, max_paths=100, wall_s=10))
    return jobs


def run(tier):
    return simple.run_tv_check(
        PROP, tier, build_jobs,
        "Column list of each backend's result (Pandas executor over the pandas model; SQLite and PostgreSQL SQL text interpreted) versus the pipeline's "
        "declared column_names on every structural path, including empty inputs; order checked after select_columns.",
        {"functions_encoded": ["view_representations.*.column_names bookkeeping (read from the built pipeline)", "pandas_base._*_step (result frame construction, empty-input branches)",
                               "sql_model.*_to_near_sql terms / subusing / select_columns_to_near_sql term ordering"],
         "bounds": {"programs": "all 1- and 2-step sequences + dedicated column-shape programs", "rows": "0, 1, 2 per table incl. mixed empty/non-empty inputs"}},
        ["models as in C01; PostgreSQL model-only", "Polars result columns are decided in C03"], min_conclusive=0.3)


def replay(path):
    return simple.replay_tv(PROP, path)
