"""C16 natural_join matches SQL join semantics on every backend.

Every join type x key specification (same name, different names, two keys, cross) x shared non-key columns: the Pandas executor
(real _natural_join_step over the pandas model), the SQLite SQL (real right/full-join emulation, text interpreted), the generic SQL
under the PostgreSQL model (native RIGHT/FULL) and the Polars executor are each compared with a reference written from the SQL
standard (null keys never match; shared columns = left value, or right value where left is null) over symbolic tables with duplicate
and null keys."""
from vf.sym import progs, simple

PROP = "C16"

D, E, F, K = progs.D, progs.E, progs.F, progs.K
SPECS = [  # (label, right table name, right descr, on argument source, on_a, on_b)
    ("samekey", "e", E, "['g']", ["g"], ["g"]),
    ("diffkey", "k", K, "[('g', 'k')]", ["g"], ["k"]),
    ("shared", "f", F, "['g']", ["g"], ["g"]),
    ("twokeys", "f", F, "['g', 'x']", ["g", "x"], ["g", "x"]),
    # differently named keys where the LEFT key's name is also an ordinary column of the right table (employee / manager style schema)
    ("diffkey_shadow", "s", progs.S, "[('g', 'k')]", ["g"], ["k"]),
]
JOINTYPES = ["inner", "left", "right", "full"]


def cases():
    out = []
    for label, rt, rdescr, on_src, on_a, on_b in SPECS:
        for jt in JOINTYPES:
            src = f"{D}.natural_join(b={rdescr}, on={on_src}, jointype='{jt}')"
            out.append((f"{jt}/{label}", src, ["d", rt], ("d", rt, on_a, on_b, jt)))
    out.append(("cross", f"{D}.natural_join(b={K}, on=[], jointype='cross')", ["d", "k"], ("d", "k", [], [], "cross")))
    return out


def build_jobs(tier, seed, kf_on):
    jobs = []
    maxr = 2 if tier == "quick" else 3
    for label, src, tables, refargs in cases():
        schema = {t: progs.SCHEMA[t] for t in tables}
        ref = {"kind": "fn", "fn": "vf.sym.refsem:ref_join", "args": list(refargs), "label": "sql-standard join"}
        backends = [("pandas", {"kind": "pandas", "src": src}), ("sqlite", {"kind": "sql", "src": src, "dialect": "sqlite"}),
                    ("postgresql-model", {"kind": "sql", "src": src, "dialect": "postgresql"})]
        for rows in progs.row_vectors(tables, maxr, maxr):
            for bname, side in backends:
                jobs.append(simple.tv_job(f"{label}:{bname}@{rows}", schema, rows, side, ref, kf_on, tier, max_paths=4000 if tier == "quick" else 40000,
                                          wall_s=60 if tier == "quick" else 600, validate=(0 if bname.startswith("postgresql") else 1)))
            # the Polars executor (it may raise; where it returns it must return the standard join)
            jobs.append(simple.tv_job(f"{label}:polars@{rows}", schema, rows, ref, {"kind": "polars", "src": src, "lazy": False}, kf_on, tier, b_may_raise=True,
                                      max_paths=4000 if tier == "quick" else 40000, wall_s=60 if tier == "quick" else 600))
    return jobs


def run(tier):
    return simple.run_tv_check(
        PROP, tier, build_jobs,
        "Each backend's natural_join (real Pandas executor over the pandas model; real SQLite SQL with the right/full emulation; generic SQL under "
        "the PostgreSQL model) against a reference join written from the SQL standard, for all join types x key specifications, over symbolic "
        "tables with duplicate and null keys; z3 decides table equality per structural path; counterexamples replayed on real pandas / sqlite3.",
        {"functions_encoded": ["pandas_base._natural_join_step / _any_key_missing", "SQLite.SQLiteModel._emit_right_join_as_left_join / _emit_full_join_as_complex",
                               "sql_model.natural_join_to_near_sql / _coalesce_terms", "reference: vf.sym.refsem.ref_join"],
         "bounds": {"rows_per_table": "0..2 quick / 0..3 thorough", "join_types": JOINTYPES + ["cross"], "key_specs": [s[0] for s in SPECS]}},
        ["models of pandas/SQLite as in C01; PostgreSQL semantics are a model only (no server): its counterexamples are replayed on SQLite >= 3.39 as stand-in engine (native RIGHT/FULL JOIN)",
         "values are mathematical integers/reals; keys int, values real; string keys are exercised in C15/C14 only",
         "the Polars executor (over the polars stand-in) is compared with the same reference wherever it returns; raising is allowed"])


def replay(path):
    return simple.replay_tv(PROP, path)
