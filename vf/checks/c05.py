"""C05 Every catalogued method behaves as documented on every backend that claims it.

Obligations are read from the LIVE catalog (op_catalog.methods_table): for every row and every backend marked 'y' (Pandas, SQLite,
PostgreSQL-model) the single-step pipeline built from the catalog's own example expression (extend for class e/u, project for p,
partitioned extend for g, ordered windowed extend for w) is executed over symbolic argument columns (missing values, zero, negatives
free).  The result is compared by z3 with the method's DOCUMENTED meaning (vf.checks.c05.DOC: written from the Term.* docstrings and
the property text: maximum/minimum propagate missing values, fmax/fmin ignore them, if_else is null on a null condition, where takes
the else-branch, coalesce, is_null/is_bad, mapv default, comparisons / arithmetic as Python on non-null operands, aggregates skip
missing values ...).  Where the documentation is silent the obligation is agreement of every backend that claims the method."""
import json

import z3

from vf.sym import cell as C
from vf.sym import pdshim, progs, refsem, rel, simple
from vf.sym.cell import Cell, FALSE, TRUE, zand, znot, zor, null_cell

PROP = "C05"
# methods that test, select or order values without computing on them: decided also with +/-infinity among the arguments
DOMAIN = {"log": (0.25, 40), "log10": (0.25, 40), "log1p": (0, 40), "sqrt": (0, 40), "arccos": (-1, 1), "arcsin": (-1, 1), "arccosh": (1, 40), "arctanh": (-0.75, 0.75)}
INF_OPS = {"coalesce", "is_inf", "is_bad", "is_null", "is_nan", "if_else", "where", "<", "<=", ">", ">=", "==", "!=", "maximum", "minimum", "fmax", "fmin", "is_in"}

M = "TableDescription(table_name='m', column_names=['x', 'y', 'z', 'a', 'b', 'q', 'row_id', 'g', 's2'])"
SCHEMA = {"m": [("x", "f", True), ("y", "f", True), ("z", "f", True), ("a", "b", True), ("b", "b", True), ("q", "i", True), ("row_id", "i", True), ("g", "s", True), ("s2", "s", True)]}


# ---------------------------------------------------------------------------------------------- documented scalar meanings
def _lift(f):
    """meaning on non-null operands as Python defines it; any missing operand gives missing"""
    def g(*cs):
        null = zor(*[c.null for c in cs])
        v, kind = f(*cs)
        return Cell(null, v, kind)
    return g


def _num2(a, b):
    if C.is_intlike(a) and C.is_intlike(b):
        return C.num(a), C.num(b), "i"
    return C.real(a), C.real(b), "f"


def _d_add(a, b):
    x, y, k = _num2(a, b)
    return x + y, k


def _d_sub(a, b):
    x, y, k = _num2(a, b)
    return x - y, k


def _d_mul(a, b):
    x, y, k = _num2(a, b)
    return x * y, k


def _d_maxmin(want_max, propagate):
    def f(a, b):
        k = C.join_kind(a, b)
        a2, b2 = C.coerce(a, k), C.coerce(b, k)
        pick_a = znot(C.lt(a2, b2)) if want_max else znot(C.lt(b2, a2))
        if propagate:
            return Cell(zor(a.null, b.null), z3.If(pick_a, a2.val, b2.val), k)
        return Cell(zand(a.null, b.null), z3.If(a.null, b2.val, z3.If(b.null, a2.val, z3.If(pick_a, a2.val, b2.val))), k)
    return f


def _d_if_else(c, a, b):
    k = C.join_kind(a, b)
    a2, b2 = C.coerce(a, k), C.coerce(b, k)
    t = c.val if c.kind == "b" else (C.num(c) != 0)
    return Cell(zor(c.null, z3.If(t, a2.null, b2.null)), z3.If(t, a2.val, b2.val), k)


def _d_where(c, a, b):
    k = C.join_kind(a, b)
    a2, b2 = C.coerce(a, k), C.coerce(b, k)
    t = zand(znot(c.null), c.val if c.kind == "b" else (C.num(c) != 0))
    return Cell(z3.If(t, a2.null, b2.null), z3.If(t, a2.val, b2.val), k)


def _d_coalesce(a, b):
    k = C.join_kind(a, b) if a.kind != b.kind else a.kind
    a2, b2 = C.coerce(a, k), C.coerce(b, k)
    return Cell(zand(a.null, b.null), z3.If(a.null, b2.val, a2.val), k)


def _cmpdoc(op):
    def f(a, b):
        core = {"==": lambda: C.veq(a, b), "!=": lambda: znot(C.veq(a, b)), "<": lambda: C.lt(a, b), ">": lambda: C.lt(b, a), "<=": lambda: znot(C.lt(b, a)),
                ">=": lambda: znot(C.lt(a, b))}[op]()
        return core, "b"
    return _lift(f)


DOC = {
    "+": _lift(_d_add), "-2": _lift(_d_sub), "*": _lift(_d_mul),
    "-1": _lift(lambda a: (-C.num(a), "f" if a.kind == "f" else "i")),
    "==": _cmpdoc("=="), "!=": _cmpdoc("!="), "<": _cmpdoc("<"), "<=": _cmpdoc("<="), ">": _cmpdoc(">"), ">=": _cmpdoc(">="),
    "maximum": _d_maxmin(True, True), "minimum": _d_maxmin(False, True), "fmax": _d_maxmin(True, False), "fmin": _d_maxmin(False, False),
    "if_else": _d_if_else, "where": _d_where, "coalesce": _d_coalesce,
    "is_null": lambda a: Cell(FALSE, a.null, "b"), "is_bad": lambda a: Cell(FALSE, a.null, "b"), "is_nan": lambda a: Cell(FALSE, a.null, "b"),
    "is_inf": lambda a: Cell(FALSE, FALSE, "b"),
    "abs": _lift(lambda a: (z3.If(C.num(a) >= 0, C.num(a), -C.num(a)), "f" if a.kind == "f" else "i")),
    "sign": _lift(lambda a: (z3.If(C.num(a) > 0, z3.RealVal(1), z3.If(C.num(a) < 0, z3.RealVal(-1), z3.RealVal(0))), "f")),
    "floor": _lift(lambda a: (z3.ToReal(z3.ToInt(C.real(a))), "f")),
    "ceil": _lift(lambda a: (-z3.ToReal(z3.ToInt(-C.real(a))), "f")),
}
AGG_DOC = {"sum": "sum", "mean": "mean", "min": "min", "max": "max", "count": "count", "size": "size", "_size": "size", "any_value": None, "nunique": "nunique"}


def ref_extend(tabs, nrows, table, out, method, argcols, literals):
    cols = list(tabs[table].keys())
    n = nrows[table]
    f = DOC[method]
    out_cells = []
    for i in range(n):
        args = [tabs[table][c][i] if isinstance(c, str) and c in tabs[table] else C.lit(c) for c in argcols]
        out_cells.append(f(*args))
    rows = [[tabs[table][c][i] for c in cols] + [out_cells[i]] for i in range(n)]
    return rel.SideResult(cols + [out], rows)


# ---------------------------------------------------------------------------------------------- catalog -> obligations
def _parse_example(expr):
    """(method key in DOC, argument columns / literals) for the catalog's example expression, or None when not a single documented call"""
    import ast

    e = expr.replace("%?%", " @ ").replace("%+%", " @@ ")
    try:
        t = ast.parse(e, mode="eval").body
    except SyntaxError:
        return None

    def atom(n):
        if isinstance(n, ast.Name):
            return n.id
        if isinstance(n, ast.Constant):
            return n.value
        if isinstance(n, ast.UnaryOp) and isinstance(n.op, ast.USub) and isinstance(n.operand, ast.Constant):
            return -n.operand.value
        return None

    if isinstance(t, ast.BinOp):
        op = {ast.Add: "+", ast.Sub: "-2", ast.Mult: "*", ast.MatMult: "coalesce"}.get(type(t.op))
        a, b = atom(t.left), atom(t.right)
        if op and a is not None and b is not None:
            return op, [a, b]
    if isinstance(t, ast.UnaryOp) and isinstance(t.op, ast.USub) and atom(t.operand) is not None:
        return "-1", [atom(t.operand)]
    if isinstance(t, ast.Compare) and len(t.ops) == 1:
        op = {ast.Eq: "==", ast.NotEq: "!=", ast.Lt: "<", ast.LtE: "<=", ast.Gt: ">", ast.GtE: ">="}.get(type(t.ops[0]))
        a, b = atom(t.left), atom(t.comparators[0])
        if op and a is not None and b is not None:
            return op, [a, b]
    if isinstance(t, ast.Call) and isinstance(t.func, ast.Attribute):
        recv = atom(t.func.value)
        args = [atom(x) for x in t.args]
        if recv is not None and all(a is not None for a in args) and t.func.attr in DOC:
            return t.func.attr, [recv] + args
        if t.func.attr == "coalesce_0" and recv is not None:
            return "coalesce", [recv, 0]
    return None


# "for all argument values": the catalog shows ONE spelling per method; literal (non-column) arguments are varied here
LITERAL_VARIANTS = {
    "g.trimstr(0, 2)": ["g.trimstr(1, 3)", "g.trimstr(2, 3)", "g.trimstr(1, 1)", "g.trimstr(0, 0)", "g.trimstr(3, 7)", "g.trimstr(3, 1)", "g.trimstr(2, 0)"],
    "row_id.is_in({1, 3})": ["row_id.is_in({2})", "row_id.is_in({0, 1, 2, 3})"],
    'g.mapv({"a": 1, "b": 2, "z": 26}, 0)': ['g.mapv({"a": 1}, 7)', 'g.mapv({"": 5, "b": 2}, -1)'],
    "z.coalesce(2)": ["z.coalesce(0)", "z.coalesce(-1.5)"],
    "row_id.mod(2)": ["row_id.mod(3)"],
    "y.around(2)": ["y.around(0)", "y.around(1)"],
}


def obligations():
    import data_algebra.op_catalog as oc

    tbl = oc.methods_table
    out = []
    for i in range(tbl.shape[0]):
        r = tbl.iloc[i]
        ob = {"op": r["op"], "expr": r["expression"], "cls": r["op_class"],
              "backends": {"pandas": r["Pandas"] == "y", "sqlite": r["SQLiteModel"] == "y", "postgresql": r["PostgreSQLModel"] == "y"}}
        out.append(ob)
        for alt in LITERAL_VARIANTS.get(r["expression"], []):
            out.append(dict(ob, expr=alt, variant_of=r["expression"]))
    return out


def _pipeline(ob):
    e = ob["expr"]
    cls = ob["cls"]
    if cls in ("e", "u"):
        return f"{M}.extend({{'res': {e!r}}})"
    if cls in ("p", "up"):
        return f"{M}.project({{'res': {e!r}}}, group_by=['q'])"
    if cls == "g":
        return f"{M}.extend({{'res': {e!r}}}, partition_by=['q'])"
    if cls == "w":
        return f"{M}.extend({{'res': {e!r}}}, partition_by=['q'], order_by=['row_id'])"
    return None


def build_jobs(tier, seed, kf_on):
    jobs = []
    ns = [1, 2] if tier == "quick" else [1, 2, 3]
    skipped = []
    mark, exact_div = 0, False
    for ob in obligations():
        for j in jobs[mark:]:
            if exact_div:
                j["int_div_exact"] = True  # "//" is translated to FLOOR(a / b): there the SQL integer division is not the user's "/" (accepted difference)
        mark, exact_div = len(jobs), ob["op"] == "//"
        src = _pipeline(ob)
        if src is None or any(t in ob["expr"] for t in ("date", "_uniform", "any_value")):
            # dates / random numbers are outside every claim; any_value is documented as returning ANY member of the group (backends may differ)
            skipped.append(ob["expr"])
            continue
        if progs.try_build(src) is None:
            skipped.append(ob["expr"])
            continue
        sides = []
        if ob["backends"]["pandas"]:
            sides.append(("pandas", {"kind": "pandas", "src": src}))
        if ob["backends"]["sqlite"]:
            sides.append(("sqlite", {"kind": "sql", "src": src, "dialect": "sqlite"}))
        if ob["backends"]["postgresql"]:
            sides.append(("postgresql-model", {"kind": "sql", "src": src, "dialect": "postgresql"}))
        doc = _parse_example(ob["expr"]) if ob["cls"] in ("e", "u") else None
        assume = [("nonnull", "m", ["row_id"]), ("distinct", "m", ["q", "row_id"])] if ob["cls"] == "w" else []
        if ob["op"] in ("as_int64", "is_nan", "is_inf"):
            # domain: a missing value has no int64 form, and NaN-vs-NULL is not distinguished by the value model (DESIGN §3): argument assumed present
            assume = assume + [("nonnull", "m", ["x", "y", "z"])]
        if ob["op"] in DOMAIN:
            # "for all argument values in the method's domain": outside it (log(0), sqrt(-1), arccos(2)) backends raise / give inf / NaN
            lo, hi = DOMAIN[ob["op"]]
            assume = assume + [("range", "m", c, lo, hi) for c in ("x", "y", "z")]
        for n in ns:
            rows = {"m": n}
            if doc is not None and doc[0] in DOC:
                ref = {"kind": "fn", "fn": "vf.checks.c05:ref_extend", "args": ["m", "res", doc[0], doc[1], []], "label": "documented meaning"}
                for bname, side in sides:
                    jobs.append(simple.tv_job(f"{ob['op']} [{ob['expr']}] {bname} vs documented @{n}", SCHEMA, rows, side, ref, kf_on, tier, assume=assume,
                                              validate=(0 if bname.startswith("postgresql") else 1), max_paths=2000, wall_s=90))
            else:
                for (na, sa), (nb, sb) in zip(sides, sides[1:]):
                    jobs.append(simple.tv_job(f"{ob['op']} [{ob['expr']}] {na} vs {nb} @{n}", SCHEMA, rows, sa, sb, kf_on, tier, assume=assume,
                                              validate=(0 if "postgresql" in (na + nb) else 1), max_paths=2000, wall_s=90))
            if ob["op"] in INF_OPS and ob["cls"] in ("e", "u") and len(sides) > 1:
                # +/- infinity among the argument values (inf mode, vf/sym/cell.py): only for methods that test or move values without
                # computing on them; the obligation is agreement of the backends that claim the method
                for (na, sa), (nb, sb) in zip(sides, sides[1:]):
                    if "postgresql" in (na + nb):
                        continue  # no PostgreSQL engine to confirm an infinity witness on
                    jobs.append(simple.tv_job(f"{ob['op']} [{ob['expr']}] {na} vs {nb} with infinities @{n}", SCHEMA, rows, sa, sb, kf_on, tier, assume=assume,
                                              inf=True, max_paths=2000, wall_s=90))
                jobs.append(simple.tv_job(f"{ob['op']} [{ob['expr']}] {sides[0][0]} vs polars with infinities @{n}", SCHEMA, rows, sides[0][1],
                                          {"kind": "polars", "src": src, "lazy": False}, kf_on, tier, assume=assume, inf=True, b_may_raise=True, max_paths=2000, wall_s=90))
            # the Polars executor (not in the catalog): same value whenever it does not raise -- against the documented meaning where there is one,
            # otherwise against the first backend that claims the method
            pl_side = {"kind": "polars", "src": src, "lazy": False}
            if doc is not None and doc[0] in DOC:
                ref = {"kind": "fn", "fn": "vf.checks.c05:ref_extend", "args": ["m", "res", doc[0], doc[1], []], "label": "documented meaning"}
                jobs.append(simple.tv_job(f"{ob['op']} [{ob['expr']}] documented vs polars @{n}", SCHEMA, rows, ref, pl_side, kf_on, tier, assume=assume,
                                          b_may_raise=True, max_paths=2000, wall_s=90))
            elif sides:
                jobs.append(simple.tv_job(f"{ob['op']} [{ob['expr']}] {sides[0][0]} vs polars @{n}", SCHEMA, rows, sides[0][1], pl_side, kf_on, tier, assume=assume,
                                          b_may_raise=True, max_paths=2000, wall_s=90))
    for j in jobs[mark:]:
        if exact_div:
            j["int_div_exact"] = True
    return jobs


def run(tier):
    obs = obligations()
    documented = sum(1 for ob in obs if ob["cls"] in ("e", "u") and (_parse_example(ob["expr"]) or (None,))[0] in DOC)
    return simple.run_tv_check(
        PROP, tier, build_jobs,
        "Every row of the live method catalog x every backend marked supported: the single-step pipeline of the catalog's example expression over symbolic "
        "argument columns (missing values free) against the documented scalar meaning (z3 per-path equality), or, where the docs are silent, agreement of the "
        "backends that claim the method.",
        {"functions_encoded": ["expr_rep.Term.* (docstrings = reference)", "op_catalog.methods_table (read live)", "pandas_base._populate_impl_map / act_on_expression",
                               "sql_model.db_expr_formatters, SQLite.SQLite_formatters + user functions, PostgreSQL formatters"],
         "catalog_rows": len(obs), "rows_with_documented_reference": documented,
         "bounds": {"rows": "1..2 quick / 1..3 thorough", "argument_columns": "x y z real?, a b bool?, q row_id int?, g s2 str? (all nullable)"}},
        ["date/time methods and _uniform are outside every claim; transcendental functions are uninterpreted (argument plumbing and null handling decided, accuracy not)",
         "string methods (concat, trimstr, as_str, mapv on strings) are largely outside the models: counted as unmodelled/inconclusive",
         "std/var/median are outside the linear fragment (inconclusive)", "PostgreSQL model-only; Polars method agreement is decided in C03"], min_conclusive=0.25)


def replay(path):
    return simple.replay_tv(PROP, path)
