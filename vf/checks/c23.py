"""C23 connected_components labels each edge by its component's least vertex.

Real data_algebra.connected_components.connected_components is executed on 2n symbolic integer
vertices (SymInt proxies: constant hash so the real set/dict code runs, == and < fork through z3).
Oracle: reachability closure written as a z3 formula (Floyd-Warshall over edge adjacency).
"""
import itertools
import json
import z3

from vf import forksym
from vf.forksym import SymInt, Harness
from vf.common import Report


def _oracle(fe, ge):
    n = len(fe)
    conn = [[z3.BoolVal(i == j) if i == j else z3.Or(fe[i] == fe[j], fe[i] == ge[j], ge[i] == fe[j], ge[i] == ge[j])
             for j in range(n)] for i in range(n)]
    for k in range(n):
        conn = [[z3.Or(conn[i][j], z3.And(conn[i][k], conn[k][j])) for j in range(n)] for i in range(n)]
    exp = []
    for i in range(n):
        # least vertex among edges connected to i
        best = z3.If(fe[i] <= ge[i], fe[i], ge[i])
        for j in range(n):
            if j == i:
                continue
            mj = z3.If(fe[j] <= ge[j], fe[j], ge[j])
            best = z3.If(z3.And(conn[i][j], mj < best), mj, best)
        exp.append(best)
    return conn, exp


class H(Harness):
    def __init__(self, n, mode="prop"):
        self.n = n
        self.mode = mode

    def vars(self):
        fe = [z3.Int(f"f{i}") for i in range(self.n)]
        ge = [z3.Int(f"g{i}") for i in range(self.n)]
        return fe, ge

    def run(self, eng):
        from data_algebra.connected_components import connected_components

        fe, ge = self.vars()
        f = [SymInt(e) for e in fe]
        g = [SymInt(e) for e in ge]
        res = connected_components(f, g)
        if len(res) != self.n:
            return False
        lab = [forksym._zi(r) for r in res]
        if any(l is None for l in lab):
            return False
        conn, exp = _oracle(fe, ge)
        if self.mode == "twin":  # deliberately wrong oracle: label == f[i]; must be refutable
            return z3.And([lab[i] == fe[i] for i in range(self.n)]) if self.n else False
        cons = [lab[i] == exp[i] for i in range(self.n)]
        for i, j in itertools.combinations(range(self.n), 2):
            cons.append((lab[i] == lab[j]) == conn[i][j])
        return z3.And(cons) if cons else True

    def concretize(self, model, info):
        fe, ge = self.vars()
        ev = lambda e: model.eval(e, model_completion=True).as_long()
        return {"f": [ev(e) for e in fe], "g": [ev(e) for e in ge]}


def make(n, mode="prop"):
    return H(n, mode)


def reference(f, g):
    parent = {}

    def find(x):
        while parent[x] != x:
            x = parent[x]
        return x

    for v in list(f) + list(g):
        parent.setdefault(v, v)
    for a, b in zip(f, g):
        ra, rb = find(a), find(b)
        if ra != rb:
            parent[max(ra, rb)] = min(ra, rb)
    comp = {}
    for v in parent:
        comp.setdefault(find(v), []).append(v)
    least = {r: min(vs) for r, vs in comp.items()}
    return [least[find(a)] for a in f]


def replay_input(inp):
    """run the real function concretely; return (ok, got, expected)"""
    from data_algebra.connected_components import connected_components

    f, g = inp["f"], inp["g"]
    exp = reference(f, g)
    try:
        got = list(connected_components(list(f), list(g)))
    except Exception as e:  # raising on a valid edge list is itself a violation
        return False, "raised %r" % (e,), exp
    return got == exp, got, exp


def run(tier):
    rep = Report("C23", "other")
    ns = [0, 1, 2, 3] if tier == "quick" else [0, 1, 2, 3, 4]
    nproc = 16
    per = {}
    total = forksym.Stats()
    samples = []
    obligations = discharged = 0
    for n in ns:
        maxp = 5000 if tier == "quick" else 80000
        st, res = forksym.explore_harness("vf.checks.c23:make", (n,), nproc=(nproc if n >= 3 else 1),
                                          max_paths=maxp, query_timeout_ms=10000)
        total.add(st)
        per[f"n={n}"] = st.as_dict()
        obligations += st.paths
        discharged += st.discharged
        for r in res:
            if r["status"] in ("cex", "error") and r["input"] and "f" in r["input"]:
                ok, got, exp = replay_input(r["input"])
                if not ok:
                    rep.violation({"property": "C23", "input": r["input"], "got": got, "expected": exp, "status": r["status"],
                                   "why": r["why"][-2000:]},
                                  f"connected_components({r['input']['f']},{r['input']['g']}) -> {got}, expected {exp}")
                else:
                    rep.harness_error(f"n={n}: counterexample {r['input']} did not reproduce on the real code ({r['status']})")
            elif r["status"] == "error":
                rep.harness_error(f"n={n}: exception without witness: {r['why'][-500:]}")
        if st.truncated:
            per[f"n={n}"]["note"] = "truncated: NOT counted as decided"
        samples.append({"n": n, "paths": st.paths, "discharged": st.discharged, "unknown": st.unknown})
        # reachability twin (n>=2 so that label==f[i] can be false)
        if 2 <= n <= 3:
            st2, res2 = forksym.explore_harness("vf.checks.c23:make", (n, "twin"), nproc=1, max_paths=maxp)
            per[f"twin n={n}"] = {"cex_found": any(r["status"] == "cex" for r in res2), "paths": st2.paths}
            if not any(r["status"] == "cex" for r in res2):
                rep.harness_error(f"vacuity: weakened oracle twin not refuted at n={n}")
    # concrete samples for the reader (one witness per n through real code)
    from data_algebra.connected_components import connected_components
    ex = {"f": [1, 4, 6, 2, 1], "g": [2, 5, 7, 3, 7]}
    samples.append({"docstring_example": ex, "real_result": list(connected_components(ex["f"], ex["g"])), "reference": reference(ex["f"], ex["g"])})
    rep.coverage = {
        "explanation": "Real connected_components executed symbolically (forksym) on n edges = 2n unconstrained integer vertices; "
                       "every feasible path (a full equality/order pattern of the vertices the code inspects) is checked against a z3 "
                       "closure formula: label_i == least vertex reachable from edge i, and label_i==label_j <=> same component. "
                       "One obligation = one path; unsat of pc & not(oracle) discharges it.",
        "functions_encoded": ["data_algebra.connected_components.connected_components", "Component.__init__"],
        "bounds": {"edges": ns, "vertex_values": "unbounded mathematical integers (any ordered hashable values behave alike: only ==,<,hash-agnostic set/dict are used)"},
        "obligations": obligations,
        "discharged": discharged,
        "unknown": total.unknown,
        "truncated": total.truncated,
        "paths": total.paths,
        "branch_queries": total.branch_queries,
        "assert_queries": total.assert_queries,
        "solver_s": round(total.solver_s, 2),
        "per_bound": per,
        "samples": samples,
        "exhaustive": not total.truncated,
        "evaluations": total.paths,
        "distinct_nontrivial": total.paths,
        "rule": "one evaluation = one feasible path of the real function; paths are distinct decision sequences",
    }
    rep.assumptions = ["vertices modelled as mathematical integers; constant-hash proxies (dict/set fall back to == chains)",
                       "edge lists longer than the bound are outside the claim",
                       "pandas_base 'connected_components' lambda wrapper (vector -> list) is not part of this harness"]
    if total.truncated:
        rep.coverage["note"] = "a bound was truncated by the path/wall budget; see per_bound"
    return rep.finish()


def replay(path):
    d = json.load(open(path))
    ok, got, exp = replay_input(d["input"])
    print("input", d["input"], "got", got, "expected", exp)
    if not ok:
        print(f"VIOLATION property=C23 replay={path}")
        return 1
    return 0
