"""forksym -- a small path-forking symbolic executor on top of z3.

The *real* repository code is executed on proxy objects that carry z3 terms.  Every Python-level
decision on a proxy (``if``, ``==`` inside dict/set, ``min``, ``sorted`` ...) calls
``Engine.branch(cond)``, which asks z3 which polarities are feasible under the current path
condition, follows one and schedules the other.  The harness is re-executed once per feasible
path (DFS over decision prefixes).  A path ends when the harness returns a z3 formula ``holds``;
the engine then decides ``pc /\\ not holds``:  unsat -> discharged, sat -> counterexample (model
kept), unknown -> inconclusive.

Only ``Exception`` may be caught by harness code: engine control flow uses BaseException subclasses.
"""
from __future__ import annotations

import time
import traceback
from dataclasses import dataclass, field
from typing import Any, Callable, List, Optional

import z3


class PathAbort(BaseException):
    """current path is infeasible / abandoned (never catch with `except Exception`)"""


class OutsideClaim(BaseException):
    """path leaves the stated claim (e.g. a don't-care value reached a structural decision)"""

    def __init__(self, why=""):
        self.why = why


class Budget(BaseException):
    pass


class KnownFindingPath(BaseException):
    """a value tainted by a recorded known finding reached a structural decision: path closed and attributed (never a pass)"""

    def __init__(self, tag=""):
        self.tag = tag


@dataclass
class PathResult:
    status: str  # discharged | cex | unknown | outside | error
    decisions: list
    info: Any = None
    model: Any = None
    why: str = ""


@dataclass
class Stats:
    paths: int = 0
    branch_queries: int = 0
    assert_queries: int = 0
    solver_s: float = 0.0
    discharged: int = 0
    cex: int = 0
    unknown: int = 0
    outside: int = 0
    known: int = 0
    errors: int = 0
    aborted: int = 0
    truncated: bool = False
    wall_s: float = 0.0

    def add(self, o: "Stats"):
        for k in (
            "paths branch_queries assert_queries solver_s discharged cex unknown outside known errors aborted wall_s".split()
        ):
            setattr(self, k, getattr(self, k) + getattr(o, k))
        self.truncated = self.truncated or o.truncated

    def as_dict(self):
        d = dict(self.__dict__)
        d["solver_s"] = round(d["solver_s"], 3)
        d["wall_s"] = round(d["wall_s"], 3)
        return d


ENG: Optional["Engine"] = None  # the engine proxies talk to


def eng() -> "Engine":
    if ENG is None:
        raise RuntimeError("no active forksym engine")
    return ENG


class Engine:
    def __init__(self, query_timeout_ms=5000, max_paths=3000, wall_budget_s=None, stop_at_first_cex=True, max_cex=3):
        self.query_timeout_ms = query_timeout_ms
        self.max_paths = max_paths
        self.wall_budget_s = wall_budget_s
        self.stop_at_first_cex = stop_at_first_cex
        self.max_cex = max_cex
        self.stats = Stats()
        self.solver = None
        self.decisions: list = []
        self.prefix: list = []
        self.pos = 0
        self.worklist: list = []
        self.model = None  # a model known to satisfy the current pc (or None)
        self.events: list = []  # per-path event tags raised by models (known-finding predicates)
        self.notes: dict = {}
        self.decided: dict = {}
        self.assumptions: list = []
        self.nice_model = None  # optional hook(solver, info) -> model preferred for counterexamples

    # ------------------------------------------------------------------ solver plumbing
    def _check(self, *extra, kind="branch"):
        t = time.time()
        r = self.solver.check(*extra)
        self.stats.solver_s += time.time() - t
        if kind == "branch":
            self.stats.branch_queries += 1
        else:
            self.stats.assert_queries += 1
        return r

    def assume(self, cond):
        """add a premise to the current path (placed *before* the code it constrains)."""
        cond = _as_z3(cond)
        self.solver.add(cond)
        if self.model is not None:
            try:
                if not z3.is_true(self.model.eval(cond, model_completion=True)):
                    self.model = None
            except z3.Z3Exception:
                self.model = None
        if self.model is None:
            r = self._check()
            if r == z3.unsat:
                raise PathAbort()
            if r == z3.sat:
                self.model = self.solver.model()

    def event(self, tag: str):
        self.events.append(tag)

    def branch(self, cond) -> bool:
        if isinstance(cond, bool):
            return cond
        cond = z3.simplify(cond)
        if z3.is_true(cond):
            return True
        if z3.is_false(cond):
            return False
        cid = cond.get_id()
        hit = self.decided.get(cid)
        if hit is not None:  # same condition already decided on this path: no fork, no query
            return hit[0]
        if self.pos < len(self.prefix):
            d = self.prefix[self.pos]
            self.decisions.append(d)
            self.pos += 1
            self.solver.add(cond if d else z3.Not(cond))
            self.model = None
            self.decided[cid] = (d, cond)
            return d
        # new decision
        # the budget is CPU seconds of this process (z3 runs in-process), so that what a job covers does not depend on machine load
        if self.wall_budget_s is not None and time.process_time() - self._c0 > self.wall_budget_s:
            raise Budget()
        s = self.solver
        free = None  # polarity known feasible without a query
        if self.model is not None:
            try:
                v = self.model.eval(cond, model_completion=True)
                if z3.is_true(v):
                    free = True
                elif z3.is_false(v):
                    free = False
            except z3.Z3Exception:
                free = None
        if free is None:
            r = self._check()
            if r == z3.unsat:
                raise PathAbort()
            if r == z3.sat:
                self.model = s.model()
                v = self.model.eval(cond, model_completion=True)
                free = bool(z3.is_true(v))
            else:
                free = True  # unknown: explore both, final query decides
                self.model = None
        other_lit = z3.Not(cond) if free else cond
        s.push()
        s.add(other_lit)
        r = self._check()
        other_model = s.model() if r == z3.sat else None
        s.pop()
        other_ok = r != z3.unsat
        d = free
        if other_ok:
            self.worklist.append(self.decisions[: self.pos] + [not free])
        self.decisions.append(d)
        self.pos += 1
        s.add(cond if d else z3.Not(cond))
        self.decided[cid] = (d, cond)
        return d

    # ------------------------------------------------------------------ exploration
    def _run_one(self, fn, prefix) -> PathResult:
        self.prefix = prefix
        self.decisions = []
        self.pos = 0
        self.events = []
        self.notes = {}
        self.model = None
        self.decided = {}
        self.solver = z3.Solver()
        self.solver.set("timeout", self.query_timeout_ms)
        for a in self.assumptions:
            self.solver.add(a)
        try:
            out = fn(self)
        except PathAbort:
            self.stats.aborted += 1
            return None
        except OutsideClaim as oc:
            self.stats.paths += 1
            self.stats.outside += 1
            return PathResult("outside", list(self.decisions), why=oc.why)
        except KnownFindingPath as kp:
            self.stats.paths += 1
            self.stats.known += 1
            return PathResult("known", list(self.decisions), why=kp.tag)
        except Budget:
            raise
        except Exception:
            self.stats.paths += 1
            self.stats.errors += 1
            tb = traceback.format_exc()
            m = None
            try:
                if self._check() == z3.sat:
                    m = self.solver.model()
            except Exception:
                m = None
            return PathResult("error", list(self.decisions), why=tb, model=m)
        self.stats.paths += 1
        info = None
        if isinstance(out, tuple):
            holds, info = out
        else:
            holds = out
        if holds is True:
            self.stats.discharged += 1
            return PathResult("discharged", list(self.decisions), info)
        neg = z3.BoolVal(True) if holds is False else z3.Not(_as_z3(holds))
        self.solver.push()
        self.solver.add(neg)
        r = self._check(kind="assert")
        if r == z3.sat:
            m = self.solver.model()
            if self.nice_model is not None:
                try:
                    m2 = self.nice_model(self.solver, info)
                    if m2 is not None:
                        m = m2
                except Exception:
                    pass
            self.solver.pop()
            self.stats.cex += 1
            return PathResult("cex", list(self.decisions), info, m)
        self.solver.pop()
        if r == z3.unsat:
            self.stats.discharged += 1
            return PathResult("discharged", list(self.decisions), info)
        self.stats.unknown += 1
        return PathResult("unknown", list(self.decisions), info)

    def explore(self, fn: Callable[["Engine"], Any], prefixes=None, on_result=None, bfs_until=None) -> List[PathResult]:
        """Run fn once per feasible path.  Returns the list of non-discharged PathResults
        (cex / unknown / outside / error) -- discharged ones are only counted, unless on_result is given."""
        global ENG
        prev = ENG
        ENG = self
        self._t0 = time.time()
        self._c0 = time.process_time()
        self.worklist = [list(p) for p in (prefixes if prefixes is not None else [[]])]
        out = []
        try:
            while self.worklist:
                if bfs_until is not None and len(self.worklist) >= bfs_until:
                    break
                if self.stats.paths >= self.max_paths:
                    self.stats.truncated = True
                    break
                prefix = self.worklist.pop(0) if bfs_until is not None else self.worklist.pop()
                try:
                    res = self._run_one(fn, prefix)
                except Budget:
                    self.stats.truncated = True
                    break
                if res is None:
                    continue
                if on_result is not None:
                    on_result(res)
                if res.status != "discharged":
                    out.append(res)
                    if res.status in ("cex", "error") and self.stop_at_first_cex and \
                            sum(1 for r in out if r.status in ("cex", "error")) >= self.max_cex:
                        if self.worklist:
                            self.stats.truncated = True
                        break
        finally:
            ENG = prev
            self.stats.wall_s += time.time() - self._t0
        return out


def _as_z3(x):
    if isinstance(x, bool):
        return z3.BoolVal(x)
    if isinstance(x, SymBool):
        return x.e
    return x


def B(cond) -> bool:
    """fork on a z3 Bool (or pass through a Python bool)"""
    if isinstance(cond, bool):
        return cond
    if ENG is None:  # concrete replay mode: only constants can be decided
        c = z3.simplify(cond)
        if z3.is_true(c):
            return True
        if z3.is_false(c):
            return False
        raise RuntimeError("symbolic decision outside an engine: %s" % c)
    return ENG.branch(cond)


# ---------------------------------------------------------------------- proxies
class SymBool:
    __slots__ = ("e",)

    def __init__(self, e):
        self.e = e

    def __bool__(self):
        return eng().branch(self.e)


def _zi(v):
    if isinstance(v, SymInt):
        return v.e
    if isinstance(v, bool):
        return z3.IntVal(int(v))
    if isinstance(v, int):
        return z3.IntVal(v)
    return None


class SymInt:
    """integer proxy: constant hash (so real dict/set still work; lookups fork through __eq__)."""

    __slots__ = ("e",)

    def __init__(self, e):
        self.e = z3.Int(e) if isinstance(e, str) else e

    def __hash__(self):
        return 0

    def __eq__(self, o):
        z = _zi(o)
        if z is None:
            return False
        return eng().branch(self.e == z)

    def __ne__(self, o):
        return not self.__eq__(o)

    def __lt__(self, o):
        return eng().branch(self.e < _zi(o))

    def __le__(self, o):
        return eng().branch(self.e <= _zi(o))

    def __gt__(self, o):
        return eng().branch(self.e > _zi(o))

    def __ge__(self, o):
        return eng().branch(self.e >= _zi(o))

    def __add__(self, o):
        return SymInt(self.e + _zi(o))

    __radd__ = __add__

    def __sub__(self, o):
        return SymInt(self.e - _zi(o))

    def __rsub__(self, o):
        return SymInt(_zi(o) - self.e)

    def __neg__(self):
        return SymInt(-self.e)

    def __repr__(self):
        return f"SymInt({self.e})"

    __str__ = __repr__


def _zs(v):
    if isinstance(v, Name):
        return v.e
    if isinstance(v, str):
        return z3.StringVal(v)
    return None


class Name(str):
    """A str subclass carrying a z3 String term.  hash is constant, == forks.
    The concrete str payload is a *label* only (used for printing); semantics come from ``e``.
    """

    def __new__(cls, label, e=None):
        o = str.__new__(cls, label)
        o.e = z3.String(label) if e is None else e
        return o

    @staticmethod
    def const(s: str) -> "Name":
        return Name(s, z3.StringVal(s))

    def __hash__(self):
        return 0

    def __eq__(self, o):
        z = _zs(o)
        if z is None:
            return False
        return eng().branch(self.e == z)

    def __ne__(self, o):
        return not self.__eq__(o)

    def __repr__(self):
        return "Name(%s)" % str.__str__(self)


# ---------------------------------------------------------------------- parallel helpers
def run_parallel(jobs, worker, nproc=None, chunksize=1):
    """jobs: list of picklable args; worker: top-level function(arg) -> picklable result.
    Uses fork so /repo modules are imported once."""
    import multiprocessing as mp
    import os

    nproc = nproc or min(16, os.cpu_count() or 1)
    if nproc <= 1 or len(jobs) <= 1:
        return [worker(j) for j in jobs]
    ctx = mp.get_context("fork")
    with ctx.Pool(nproc, maxtasksperchild=50) as pool:
        return pool.map(worker, jobs, chunksize=chunksize)


# ---------------------------------------------------------------------- harness protocol + prefix-split exploration
class Harness:
    """Protocol.  run(eng) -> holds | (holds, info);  concretize(model, info) -> picklable input."""

    def run(self, eng):
        raise NotImplementedError

    def concretize(self, model, info):
        return None


def _resolve(path):
    import importlib

    mod, name = path.rsplit(":", 1)
    return getattr(importlib.import_module(mod), name)


def _slim(results, harness):
    out = []
    for r in results:
        conc = None
        if r.status == "cex":
            try:
                conc = harness.concretize(r.model, r.info)
            except Exception:
                conc = {"concretize_error": traceback.format_exc()}
        elif r.status == "error" and r.model is not None:
            # an exception escaped the code under test on a feasible path: witness input for it
            try:
                conc = harness.concretize(r.model, r.info)
            except Exception:
                conc = {"concretize_error": traceback.format_exc()}
        info = r.info
        try:
            import pickle

            pickle.dumps(info)
        except Exception:
            info = repr(info)
        out.append({"status": r.status, "decisions": r.decisions, "why": r.why, "input": conc, "info": info})
    return out


def _worker_explore(job):
    factory_path, args, prefixes, ekw = job
    h = _resolve(factory_path)(*args)
    e = Engine(**ekw)
    res = e.explore(h.run, prefixes=prefixes)
    return e.stats, _slim(res, h)


def explore_harness(factory_path, args=(), nproc=1, split=None, **ekw):
    """Explore a harness (given by 'module:factory' + args) possibly over several processes by prefix splitting.
    Returns (Stats, list of slim result dicts for non-discharged paths)."""
    h = _resolve(factory_path)(*args)
    if nproc <= 1:
        e = Engine(**ekw)
        res = e.explore(h.run)
        return e.stats, _slim(res, h)
    e = Engine(**ekw)
    split = split or 8 * nproc
    res = e.explore(h.run, bfs_until=split)
    total = Stats()
    total.add(e.stats)
    slim = _slim(res, h)
    prefixes = list(e.worklist)
    if prefixes and not (ekw.get("stop_at_first_cex", True) and any(r["status"] == "cex" for r in slim)):
        ekw2 = dict(ekw)  # each prefix job gets the whole path budget; truncation is reported per job
        jobs = [(factory_path, args, [p], ekw2) for p in prefixes]
        for st, sl in run_parallel(jobs, _worker_explore, nproc=nproc):
            total.add(st)
            slim.extend(sl)
    total.wall_s = e.stats.wall_s
    return total, slim


# ---------------------------------------------------------------------- association-list dict for symbolic keys
class SymDict(dict):
    """dict subclass with association-list semantics: key lookups use == (which forks for Name / SymInt keys),
    so a symbolic Name can be found equal to a plain-str key the code under test builds (e.g. an f-string).
    Insertion order is preserved like dict.  The underlying C dict storage is never used."""

    def __init__(self, src=(), **kw):
        dict.__init__(self)
        self._it = []
        self.update(src, **kw)

    def _find(self, k):
        for i, kv in enumerate(self._it):
            if kv[0] is k or kv[0] == k:
                return i
        return -1

    def __contains__(self, k):
        return self._find(k) >= 0

    def __getitem__(self, k):
        i = self._find(k)
        if i < 0:
            raise KeyError(k)
        return self._it[i][1]

    def __setitem__(self, k, v):
        i = self._find(k)
        if i < 0:
            self._it.append([k, v])
        else:
            self._it[i][1] = v

    def __delitem__(self, k):
        i = self._find(k)
        if i < 0:
            raise KeyError(k)
        del self._it[i]

    def get(self, k, default=None):
        i = self._find(k)
        return default if i < 0 else self._it[i][1]

    _MISSING = object()

    def pop(self, k, default=_MISSING):
        i = self._find(k)
        if i < 0:
            if default is SymDict._MISSING:
                raise KeyError(k)
            return default
        v = self._it[i][1]
        del self._it[i]
        return v

    def setdefault(self, k, default=None):
        i = self._find(k)
        if i < 0:
            self._it.append([k, default])
            return default
        return self._it[i][1]

    def update(self, src=(), **kw):
        if isinstance(src, SymDict):
            src = [(k, v) for k, v in src._it]
        elif hasattr(src, "keys"):
            src = [(k, src[k]) for k in src.keys()]
        for k, v in src:
            self[k] = v
        for k, v in kw.items():
            self[k] = v

    def keys(self):
        return [kv[0] for kv in self._it]

    def values(self):
        return [kv[1] for kv in self._it]

    def items(self):
        return [(kv[0], kv[1]) for kv in self._it]

    def __iter__(self):
        return iter(self.keys())

    def __len__(self):
        return len(self._it)

    def __bool__(self):
        return len(self._it) > 0

    def clear(self):
        self._it = []

    def copy(self):
        return SymDict(self)

    def __eq__(self, o):
        if not hasattr(o, "keys"):
            return False
        if len(self) != len(o):
            return False
        for k, v in self._it:
            if k not in o:
                return False
            if not (o[k] == v):
                return False
        return True

    def __ne__(self, o):
        return not self.__eq__(o)

    __hash__ = None

    def __repr__(self):
        return "SymDict(%r)" % (self._it,)
