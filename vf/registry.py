"""Registry of claimed checks (source of MANIFEST.json; regenerate with tools/mkmanifest.py)."""

CHECKS = {
    "C23": dict(
        category="other",
        technique="path-exhaustive symbolic execution of the real function (forksym proxies + z3), bounded edges",
        text="Every feasible path of the real connected_components on n<=3 (quick) / n<=4 (thorough) symbolic edges is decided by z3 "
             "against a closure-formula oracle; counterexamples are replayed on the real function before being reported.",
        note="Bounded: edge lists longer than the bound are outside the claim. Vertices are mathematical integers; dict/set are the real "
             "CPython ones used through constant-hash proxies. Trusted: z3, the forksym engine, the closure oracle.",
        design_ref="DESIGN.md §4 C23",
    ),
}

NOT_YET = {}
