"""Registry of claimed checks (source of MANIFEST.json; regenerate with tools/mkmanifest.py)."""

CHECKS = {
    "C23": dict(
        category="other",
        technique="path-exhaustive symbolic execution of the real function (forksym proxies + z3), bounded edges",
        text="Every feasible path of the real connected_components on n<=3 (quick) / n<=4 (thorough) symbolic edges is decided by z3 "
             "against a closure-formula oracle; counterexamples are replayed on the real function before being reported.",
        note="Bounded: edge lists longer than the bound are outside the claim. Vertices are mathematical integers; dict/set are the real "
             "CPython ones used through constant-hash proxies. Trusted: z3, the forksym engine, the closure oracle.",
        design_ref="DESIGN.md §4 C23",
    ),
}

CHECKS["C24"] = dict(
    category="other",
    technique="path-exhaustive symbolic execution of the real class (forksym proxies + z3), enumerated operation sequences over symbolic elements",
    text="Real OrderedSet (and the MutableSet mixins it inherits) plus ordered_union/intersect/diff run on symbolic elements; every "
         "equality pattern of the elements is a solver-decided path; results are compared after every operation with a "
         "list-without-duplicates reference; counterexamples are replayed with concrete ints.",
    note="Bounded operation sequences (see evidence bounds) over <=3 initial elements per set. Constant-hash proxies make OrderedDict "
         "degrade to == chains, so hash-order effects of builtin set iteration are not modelled. Trusted: z3, forksym, the reference model.",
    design_ref="DESIGN.md §4 C24",
)
CHECKS["C20"] = dict(
    category="other",
    technique="inductive step from an arbitrary symbolic state: forksym (z3 String keys, exhaustive paths) + CrossHair contracts (symbolic counter)",
    text="For each data-space operation one step from an arbitrary symbolic map state is decided by z3 against map-update semantics for the "
         "real DataModelSpace and real DBSpace; histories of any length follow by induction on the state. CrossHair re-checks the same "
         "contracts with a symbolic counter (bug-finding; 'Not confirmed' is reported as inconclusive).",
    note="Table contents are opaque ints; data model, describe_table and the database handle are stubs (dict-backed handle with the DBHandle "
         "contract). State size <=2 (quick) / <=3 (thorough), counter values enumerated in forksym. Counterexamples are replayed on the contract "
         "function concretely and on the real spaces with pandas frames / in-memory SQLite.",
    design_ref="DESIGN.md §4 C20",
    engine="forksym+z3, crosshair",
)

CHECKS["C22"] = dict(
    category="other",
    technique="path-exhaustive symbolic execution of the real decorator (forksym: symbolic type tags, column presence, nullness) + z3 oracle equivalence",
    text="The real SchemaRaises machinery runs on values whose type is a symbolic tag and on pandas object frames with symbolic column "
         "presence / null cells / cell types; per path z3 decides 'raised <=> documented violation', 'function called <=> arguments conform' "
         "and result identity. Specification shapes and switch histories are enumerated; counterexamples are replayed with real python values.",
    note="Bounded: value types int/float/str/bool, <=2 declared columns, <=2 (quick) / <=3 (thorough) rows. Null scalar arguments, numpy scalar "
         "types and Polars frames are outside the claim; message text unchecked. Trusted: z3, forksym, the oracle written from the property text.",
    design_ref="DESIGN.md §4 C22",
)

CHECKS["C25"] = dict(
    category="other",
    technique="path-exhaustive symbolic execution of the real cache code (forksym: z3 String dialect/SQL, symbolic frame cells) with the pandas-hash/SHA-256 boundary stubbed as an injective label-blind function",
    text="store/store/get histories over symbolic dialect names, SQL texts and frame contents, with enumerated table names, column lists "
         "(incl. permuted labels) and shapes: z3 decides per path that a hit implies an equal key, that the value returned equals the last "
         "result stored under it, that store and get copy, and that dirty tracks changes. Counterexamples replay on real pandas + hashlib.",
    note="PARTIAL: pandas.util.hash_pandas_object + SHA-256 are assumed to be an injective function of the positional 64-bit patterns, blind to labels and "
         "column types (C boundary); column dtypes are symbolic (int64/float64/bool) in dedicated layouts; lookups with the stored frames edited in place are "
         "part of the histories; only the 'hit => equal key' direction is asserted; histories are 2 stores + 2 lookups. Object columns: known finding.",
    design_ref="DESIGN.md §4 C25",
)

CHECKS["C13"] = dict(
    category="translation_validation",
    technique="per-text SMT equivalence (z3, QF_UFLRA) between the Term tree the real parser returns and CPython's ast for the same text, operands symbolic",
    text="For every text of a bounded grammar the tree returned by the real parse_by_lark is walked through the repository's ExpressionWalker "
         "protocol into a z3 term and compared by z3, for all operand values, with the term built from Python's own ast under the same operator "
         "table; the printed form is re-parsed and compared the same way. Solver counterexamples are confirmed by real evaluation (Pandas vs Python).",
    note="Bounded grammar (see evidence). lark runs concretely. + * / // % ** and methods are uninterpreted non-associative functions so that "
         "regrouping is visible; comparisons are False on operands flagged by an uninterpreted is_nan predicate (so 'not a < b' and 'a >= b' differ); "
         "and/or/not only over boolean operands. Trusted: z3, the ast->term and walker->term translations (same table).",
    design_ref="DESIGN.md §4 C13",
    engine="z3",
)

_TV_NOTE = ("Bounded: program grammar and rows per table as listed in evidence.bounds. pandas/numpy, SQLite and PostgreSQL are replaced by models "
            "(vf/sym/pdshim.py, vf/sym/sqlsym.py) that the REAL repository code calls / whose emitted SQL text they interpret; explored paths' witnesses "
            "are replayed on real pandas + sqlite3 and must match the models' predictions; a violation is printed only after it reproduced on the real "
            "engines. Values are mathematical ints/reals (no overflow, rounding, inf, NaN-vs-null, dates). Trusted: z3, forksym, the models, the reference "
            "semantics where one is used.")


def _tv(pid, text, technique, ref, note_extra=""):
    CHECKS[pid] = dict(category="translation_validation", technique=technique, text=text, note=_TV_NOTE + (" " + note_extra if note_extra else ""),
                       design_ref=ref, engine="forksym+z3 over sympd/symsql models")


_tv("C01", "For every program of a bounded operator grammar and every row-count vector the real Pandas executor (current source, run over a symbolic "
    "pandas/numpy model) and the SQL text emitted by the real SQLiteModel.to_sql (interpreted symbolically under SQLite semantics with the repository's "
    "own user functions) are executed on the same symbolic tables; z3 decides per structural path that both return the same table for all cell values.",
    "translation validation: symbolic execution of the real Pandas executor vs symbolic interpretation of the SQL text the real generator emits; z3 decides per-path table equality",
    "DESIGN.md §4 C01", "Accepted differences (integer /, %, sum/count over all-null groups) are never compared; recorded known findings are tainted values.")
_tv("C06", "Chained pipelines (where the real builder merges extends, collapses selections, removes intermediate order_rows) versus step-by-step application "
    "on materialised intermediate results, both through the real Pandas executor over the pandas model, equality decided by z3 for all inputs; the "
    "accept/reject half is decided by building both forms.",
    "translation validation of builder simplifications: chained vs step-by-step pipelines executed symbolically, z3 per-path equality; accept/reject by construction",
    "DESIGN.md §4 C06")
_tv("C08", "Result column lists of the Pandas executor (over the model) and of the SQLite / PostgreSQL SQL text versus the pipeline's declared column_names on "
    "every solver-feasible structural path (empty-input branches included); order checked after select_columns.",
    "path-exhaustive symbolic execution (solver decides path feasibility) with a structural assertion on result columns", "DESIGN.md §4 C08")
_tv("C09", "project / windowed extend on each backend against a reference written from the property statement (one row per distinct key combination, null its "
    "own group, exactly one row ungrouped, every row kept by a windowed extend with its partition's aggregate); z3 decides equality per structural path.",
    "translation validation against a reference semantics (z3 per-path equality), backends: real Pandas executor over the model, SQLite SQL text, PostgreSQL-model SQL text",
    "DESIGN.md §4 C09")
_tv("C16", "natural_join of every type and key specification on each backend against a reference join from the SQL standard over symbolic tables with duplicate "
    "and null keys; z3 decides equality per structural path.",
    "translation validation against a reference join (z3 per-path equality): real _natural_join_step over the model, SQLite right/full emulation text, generic SQL under the PostgreSQL model, the Polars executor over the polars model (may raise)",
    "DESIGN.md §4 C16")
_tv("C27", "Ordered window functions for 0-2 partition columns and 1-2 order columns with every reversal pattern on each backend against an order-free reference "
    "(position = number of partition mates at or before the row) under the total-order premise, also with the window step directly after an extend that overwrites or "
    "creates its order / partition column; z3 decides equality per structural path.",
    "translation validation against an order-free window reference (z3), backends: real Pandas window realisation over the model, SQLite / PostgreSQL-model window SQL",
    "DESIGN.md §4 C27")

_tv("C02", "As C01 with the real PostgreSQLModel (native RIGHT/FULL JOIN, NULLIF division, BIGINT cast, LN, CTE elimination on, use_with off): its SQL text is "
    "interpreted under a PostgreSQL semantics MODEL and compared by z3 with the real Pandas executor over the pandas model. No PostgreSQL server exists "
    "in the sandbox: counterexamples are replayed on SQLite >= 3.39 as stand-in engine and only those that reproduce there are reported.",
    "translation validation under a documented-semantics model of PostgreSQL (z3 per-path equality); stand-in replay on SQLite",
    "DESIGN.md §4 C02", "PARTIAL: the property's observation point (execution on PostgreSQL 16) is unreachable here; PG-only disagreements are listed as model-only in evidence.")
_tv("C07", "Composite pipelines built by the real composition code (a >> b, DataOpArrow composition, replace_leaves, eval with a map of pipelines) versus "
    "sequential application on materialised results, over symbolic inputs through the real Pandas executor on the pandas model (z3 per-path equality); "
    "composition must not raise, all forms are ==, associativity by == and by meaning, dom/cod match.",
    "translation validation of composition: composite vs sequential pipelines executed symbolically (z3), structural obligations by construction",
    "DESIGN.md §4 C07")
_tv("C10", "Perturbation: the same backend on symbolic tables that share the cells of columns_used()-reported columns and have independent symbolic cells "
    "elsewhere must return equal results (z3, all values); narrowing: the pipeline rebuilt on descriptions narrowed to the reported columns agrees on "
    "restricted inputs. Backends: Pandas executor over the model, SQLite SQL text.",
    "relational (2-safety) symbolic execution: shared vs independent symbolic cells, z3 per-path equality", "DESIGN.md §4 C10")
_tv("C18", "sem(P)(T) versus sem(P)(row-permuted T) and sem(P)(T with a non-default / duplicate / RangeIndex-offset index) on the same backend over symbolic "
    "tables; z3 decides multiset equality (sequence equality after order_rows) per structural path; index labels and label alignment are modelled; "
    "order_rows / limit chains are also decided against the row-count oracle min(limit, rows).",
    "relational symbolic execution under input permutation / re-indexing (z3 per-path equality)", "DESIGN.md §4 C18")
CHECKS["C19"] = dict(
    category="other",
    technique="path-exhaustive symbolic execution of the real Pandas executor on caller-owned model frames with in-place-API tracking; second evaluation compared by z3",
    text="On every solver-feasible structural path of the real Pandas executor (over the pandas model) no in-place API touches a caller-owned frame object, and "
         "evaluating the same pipeline object twice on the same frames gives equal tables (z3, all cell values) with unchanged pipeline text; to_sql twice is "
         "identical. The eager Polars adapter runs the same way over the polars stand-in on caller-owned frames. Counterexamples are replayed on real "
         "pandas / polars comparing values, dtypes, columns and index.",
    note="Bounded programs/rows (see evidence). Mutation tracking is part of the pandas model: an unmodelled in-place API raises Unmodelled (counted). "
         "dtypes are compared on real replay only. Trusted: z3, forksym, the pandas model.",
    design_ref="DESIGN.md §4 C19", engine="forksym+z3 over sympd model")

_tv("C04", "SQL text of the real to_sql under every option combination (use_with, use_cte_elim, annotate, initial_commas, sql_indent) x extend merging on/off x dialect: "
    "parse trees identical to the baseline are discharged syntactically, every distinct tree is interpreted over the same symbolic tables and compared with the "
    "baseline tree by z3; to_sql must be idempotent.",
    "translation validation between SQL texts generated under different options (syntactic discharge + z3 per-path equality of interpreted queries)", "DESIGN.md §4 C04")
_tv("C11", "Near-miss pipeline pairs (one argument of one step changed): the real == is evaluated; every pair that compares equal must have identical SQL in five "
    "dialects and is executed by the real Pandas executor over the pandas model on the same symbolic tables (z3 per-path equality); reflexivity and symmetry.",
    "equality-implies-equivalence: real == on enumerated near-miss pairs, then z3 per-path semantic equality + SQL text equality", "DESIGN.md §4 C11")
_tv("C12", "Printed forms (to_python plain/black, repr) are re-evaluated with the repository's eval_da_ops: == with the original, and original vs re-built pipeline "
    "executed by the real Pandas executor over the pandas model on the same symbolic table with z3 deciding equality (uninterpreted ** / functions make regrouping "
    "visible); pickle round trip.",
    "print/re-parse round trip decided by z3 semantic equality of original and re-built pipeline + structural ==", "DESIGN.md §4 C12")
_tv("C15", "r(sem(P)(T)) versus sem(rP)(rT) for injective renamings of one column / table into the internal-name vocabulary harvested from the current source "
    "(scratch columns, join suffixes, generated view and alias names); z3 per-path equality on the Pandas executor over the model and on the SQLite SQL text.",
    "relational symbolic execution under renaming into harvested internal names (z3 per-path equality)", "DESIGN.md §4 C15")
CHECKS["C14"] = dict(
    category="other",
    technique="CrossHair (symbolic execution over z3) contracts on the real quoting functions against per-dialect reference lexers + whole-pipeline flow of adversarial strings on real SQLite",
    text="For all strings within the stated length bound (and structured long inputs) the reference lexer of each of five dialects reads quote_string / quote_identifier / "
         "value lists of the REAL dialect models back verbatim (CrossHair 'Confirmed over all paths', counterexamples re-evaluated concretely); adversarial strings incl. the "
         "solver's counterexamples are pushed through whole pipelines at every site user text reaches SQL and executed on real SQLite against the Pandas result.",
    note="Lexers for MySQL/BigQuery/Spark are models from documentation (no engines here). whole to_sql and the lark re-parse are outside CrossHair's reach: the flow part is "
         "concrete. 'Not confirmed' contracts are listed as inconclusive. Bound: len <= 3 quick / 4 thorough; 12 quotes / 6 backslashes structured.",
    design_ref="DESIGN.md §4 C14", engine="crosshair+z3")
CHECKS["C26"] = dict(
    category="other",
    technique="solver-enumerated equality patterns of symbolic column names (z3 Strings, forksym) driving a differential build: step on the real prefix vs on a fresh description; plus a documented-rule table",
    text="For every prefix (incl. ones the builder simplifies away) x step kind the step's column arguments are symbolic strings; each solver-feasible equality pattern "
         "with the names the builder can compare against is one path on which the step is built on the prefix and on a fresh TableDescription of the prefix's columns: "
         "accept/reject and declared columns must agree. Documented rules: one violating and one conforming step per rule after every prefix; two-assignment extend / "
         "project steps whose targets and columns read are all symbolic names are decided against an oracle written from the rule text on every equality pattern.",
    note="Expression shapes inside steps are concrete text (lark is opaque), names symbolic. The rule table and oracle are written from the property statement. Trusted: z3, forksym.",
    design_ref="DESIGN.md §4 C26", engine="forksym+z3")

_tv("C05", "Obligations read from the live method catalog: for every row x backend marked supported the single-step pipeline of the catalog's example expression "
    "over symbolic (nullable) argument columns is compared by z3 with the method's documented scalar meaning (reference table written from the Term.* docstrings), "
    "or, where the docs are silent, with the other backends that claim the method; the Polars executor is compared per method (it may raise); methods that only "
    "test/select/order values are also decided with +/-infinity among the arguments (two extreme symbolic constants, witnesses carry real inf).",
    "per-(method, backend) translation validation against a documented-meaning reference table (z3 per-path equality)", "DESIGN.md §4 C05",
    "Outside: date/time methods, _uniform, any_value (documented as arbitrary), string methods, std/var/median, numerical accuracy of transcendental functions "
    "(uninterpreted, arguments restricted to the domain), arithmetic on infinities, NaN as distinct from NULL.")
_tv("C21", "rank_to_average and last_observed_carried_forward: the helper's pipeline executed symbolically (Pandas executor over the model; SQLite text) against a "
    "reference from the docstring (order-free formulas), z3 per-path equality; replicate_rows_query: its finite input domain (counts 1..max_count) enumerated "
    "completely on real pandas and SQLite; def_multi_column_map: enumerated mapping tables on the real engines.",
    "translation validation of helper pipelines against docstring references (z3); finite-domain enumeration for replicate_rows_query", "DESIGN.md §4 C21",
    "replicate_rows_query / def_multi_column_map are decided by enumeration on the real engines, not by the solver (log/ceil/string keys, record transforms).")

_tv("C03", "The repository's PolarsModel (private copy of polars_model.py, eager and lazy) runs over a symbolic polars stand-in and the Pandas executor over the pandas "
    "model on the same symbolic tables; on every structural path where the Polars run returns, z3 decides both tables are equal for all cell values; raising paths are "
    "allowed. Attribute existence is delegated to the installed polars, so calls polars 1.44 rejects raise in the model as in the engine.",
    "translation validation: symbolic execution of the real Polars executor over a polars model vs the real Pandas executor over the pandas model (z3 per-path equality)",
    "DESIGN.md §4 C03", "The polars stand-in (vf/sym/plshim.py) is validated on each run's witnesses against real polars.")
_tv("C17", "Enumerated control-table layouts x symbolic row-record data: rows->blocks vs a reference unpivot, blocks->rows of row/column-permuted conforming blocks vs the "
    "original records, inverse round trip, Pandas == Polars, through the real RecordMap and both executors' record transforms over the models, and through the SQL text "
    "to_sql emits for convert_records (SQLite, PostgreSQL model) interpreted over the same symbolic tables (z3 per-path equality); "
    "compose() vs sequential application on example inputs.",
    "translation validation of record transforms against a reference unpivot / the original records (z3), layouts enumerated, data symbolic", "DESIGN.md §4 C17",
    "compose() is checked concretely on example inputs (it is built from example data).")

NOT_YET = {}
