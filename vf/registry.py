"""Registry of claimed checks (source of MANIFEST.json; regenerate with tools/mkmanifest.py)."""

CHECKS = {
    "C23": dict(
        category="other",
        technique="path-exhaustive symbolic execution of the real function (forksym proxies + z3), bounded edges",
        text="Every feasible path of the real connected_components on n<=3 (quick) / n<=4 (thorough) symbolic edges is decided by z3 "
             "against a closure-formula oracle; counterexamples are replayed on the real function before being reported.",
        note="Bounded: edge lists longer than the bound are outside the claim. Vertices are mathematical integers; dict/set are the real "
             "CPython ones used through constant-hash proxies. Trusted: z3, the forksym engine, the closure oracle.",
        design_ref="DESIGN.md §4 C23",
    ),
}

CHECKS["C24"] = dict(
    category="other",
    technique="path-exhaustive symbolic execution of the real class (forksym proxies + z3), enumerated operation sequences over symbolic elements",
    text="Real OrderedSet (and the MutableSet mixins it inherits) plus ordered_union/intersect/diff run on symbolic elements; every "
         "equality pattern of the elements is a solver-decided path; results are compared after every operation with a "
         "list-without-duplicates reference; counterexamples are replayed with concrete ints.",
    note="Bounded operation sequences (see evidence bounds) over <=3 initial elements per set. Constant-hash proxies make OrderedDict "
         "degrade to == chains, so hash-order effects of builtin set iteration are not modelled. Trusted: z3, forksym, the reference model.",
    design_ref="DESIGN.md §4 C24",
)
CHECKS["C20"] = dict(
    category="other",
    technique="inductive step from an arbitrary symbolic state: forksym (z3 String keys, exhaustive paths) + CrossHair contracts (symbolic counter)",
    text="For each data-space operation one step from an arbitrary symbolic map state is decided by z3 against map-update semantics for the "
         "real DataModelSpace and real DBSpace; histories of any length follow by induction on the state. CrossHair re-checks the same "
         "contracts with a symbolic counter (bug-finding; 'Not confirmed' is reported as inconclusive).",
    note="Table contents are opaque ints; data model, describe_table and the database handle are stubs (dict-backed handle with the DBHandle "
         "contract). State size <=2 (quick) / <=3 (thorough), counter values enumerated in forksym. Counterexamples are replayed on the contract "
         "function concretely and on the real spaces with pandas frames / in-memory SQLite.",
    design_ref="DESIGN.md §4 C20",
    engine="forksym+z3, crosshair",
)

CHECKS["C22"] = dict(
    category="other",
    technique="path-exhaustive symbolic execution of the real decorator (forksym: symbolic type tags, column presence, nullness) + z3 oracle equivalence",
    text="The real SchemaRaises machinery runs on values whose type is a symbolic tag and on pandas object frames with symbolic column "
         "presence / null cells / cell types; per path z3 decides 'raised <=> documented violation', 'function called <=> arguments conform' "
         "and result identity. Specification shapes and switch histories are enumerated; counterexamples are replayed with real python values.",
    note="Bounded: value types int/float/str/bool, <=2 declared columns, <=2 (quick) / <=3 (thorough) rows. Null scalar arguments, numpy scalar "
         "types and Polars frames are outside the claim; message text unchecked. Trusted: z3, forksym, the oracle written from the property text.",
    design_ref="DESIGN.md §4 C22",
)

CHECKS["C25"] = dict(
    category="other",
    technique="path-exhaustive symbolic execution of the real cache code (forksym: z3 String dialect/SQL, symbolic frame cells) with the pandas-hash/SHA-256 boundary stubbed as an injective label-blind function",
    text="store/store/get histories over symbolic dialect names, SQL texts and frame contents, with enumerated table names, column lists "
         "(incl. permuted labels) and shapes: z3 decides per path that a hit implies an equal key, that the value returned equals the last "
         "result stored under it, that store and get copy, and that dirty tracks changes. Counterexamples replay on real pandas + hashlib.",
    note="PARTIAL: content-sensitivity/collision-freedom of pandas.util.hash_pandas_object + SHA-256 is an assumption (C boundary), dtype "
         "differences are not modelled, only the 'hit => equal key' direction is asserted, histories are 2 stores + 2 lookups.",
    design_ref="DESIGN.md §4 C25",
)

CHECKS["C13"] = dict(
    category="translation_validation",
    technique="per-text SMT equivalence (z3, QF_UFLRA) between the Term tree the real parser returns and CPython's ast for the same text, operands symbolic",
    text="For every text of a bounded grammar the tree returned by the real parse_by_lark is walked through the repository's ExpressionWalker "
         "protocol into a z3 term and compared by z3, for all operand values, with the term built from Python's own ast under the same operator "
         "table; the printed form is re-parsed and compared the same way. Solver counterexamples are confirmed by real evaluation (Pandas vs Python).",
    note="Bounded grammar (see evidence). lark runs concretely. + * / // % ** and methods are uninterpreted non-associative functions so that "
         "regrouping is visible; and/or/not only over boolean operands. Trusted: z3, the ast->term and walker->term translations (same table).",
    design_ref="DESIGN.md §4 C13",
    engine="z3",
)

NOT_YET = {}
