"""CLI: python -m vf.main <ID> [--tier quick|thorough] [--replay path]"""
import argparse, importlib, os, sys, traceback


def main():
    ap = argparse.ArgumentParser()
    ap.add_argument("prop")
    ap.add_argument("--tier", default=None)
    ap.add_argument("--replay", default=None)
    a = ap.parse_args()
    if a.tier:
        os.environ["VERIF_TIER"] = a.tier
    tier = os.environ.get("VERIF_TIER", "quick")
    if tier not in ("quick", "thorough"):
        tier = "quick"
        os.environ["VERIF_TIER"] = tier
    try:
        mod = importlib.import_module("vf.checks." + a.prop.lower())
    except ModuleNotFoundError:
        print(f"HARNESS-ERROR no check for {a.prop}", file=sys.stderr)
        return 2
    try:
        if a.replay:
            return mod.replay(a.replay)
        return mod.run(tier)
    except SystemExit:
        raise
    except BaseException:
        traceback.print_exc()
        print(f"HARNESS-ERROR property={a.prop} crashed", file=sys.stderr)
        return 2


if __name__ == "__main__":
    sys.exit(main())
